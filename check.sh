#!/bin/bash
# Usage: ./check.sh <property> <quick|thorough> | ./check.sh replay <file>
# Rebuilds the checker from /repo's current working tree (hooks on: build tag verif) and runs it.
set -u
HERE="$(cd "$(dirname "$0")" && pwd)"
export GOFLAGS=-mod=mod GOPROXY=off GOSUMDB=off GOTOOLCHAIN=local GOWORK=off
export VERIF_ROOT="$HERE"
mkdir -p "$HERE/bin" "$HERE/evidence" "$HERE/replays"
cd "$HERE/harness" || exit 2
build() { # tags out
  if ! go build -tags "$1" -o "$HERE/bin/$2" ./cmd/check 2> "$HERE/bin/$2.buildlog"; then
    echo "BUILD-FAILURE: the checker does not build against /repo's working tree (tags $1):" >&2
    head -30 "$HERE/bin/$2.buildlog" >&2
    exit 2
  fi
}
build verif check
build verif,tiny check_tiny
if [ "${1:-}" = "C14" ]; then
  # the call-site matrix is built WITHOUT the hook tag (the hook would change escape analysis at the call sites)
  if ! go build -o "$HERE/bin/c14cases" ./cmd/c14cases 2> "$HERE/bin/c14cases.buildlog"; then
    echo "BUILD-FAILURE: c14cases:" >&2; head -30 "$HERE/bin/c14cases.buildlog" >&2; exit 2
  fi
fi
if [ "${1:-}" = "C19" ]; then
  if ! go build -race -tags verif -o "$HERE/bin/check_race" ./cmd/check 2> "$HERE/bin/check_race.buildlog"; then
    echo "BUILD-FAILURE: the race-detector build of the checker failed:" >&2; head -30 "$HERE/bin/check_race.buildlog" >&2; exit 2
  fi
fi
exec "$HERE/bin/check" "$@"
