#!/usr/bin/env python3
"""Generates MANIFEST.json from the table below (kept in one place so that it stays valid)."""
import json, subprocess

WX_NOTE = ("Trusted base: the reference model (harness/sim/model.go) as a reading of the documentation; the canonical state dump "
           "and invariant checker compiled into ecs under build tag verif (a reflection self-test fails the check if a struct field is not covered); "
           "Go runtime. Bounded: at most K handles per epoch and small component/filter menus per scenario; scenarios that do not reach a fixpoint "
           "are exhaustive up to the completed depth reported in the evidence file.")

checks = {
 "C01": ("explicit-state BFS over the real World vs reference model (storage oracle: Has/Mask/Ids/Get/value tokens + structural invariants on every state)", "§4 C01"),
 "C02": ("explicit-state BFS to fixpoint over entity-only worlds (all free-list shapes up to K handles) + bounded BFS with table moves; handle oracle on every state and transition", "§4 C02"),
 "C03": ("explicit-state BFS; on every state every menu filter (plain and registered) is iterated with all Next/Step compositions, Count, EntityAt and accessor cross-checks", "§4 C03"),
 "C05": ("explicit-state BFS over relation scenarios (designated-parent scenario to fixpoint) vs reference model of target rules, incl. dead/recycled/self targets through every API taking a target", "§4 C05"),
 "C06": ("explicit-state BFS over table-lifecycle alphabets (target death, retirement, re-use) vs reference model + structural invariants", "§4 C06"),
 "C07": ("explicit-state BFS with Register/Unregister as ordinary operations; cached vs model-evaluated selection on every state, batch ops through cached and plain filter", "§4 C07"),
 "C08": ("explicit-state BFS; every batch transition is compared with the model's loop of single-entity operations (state, count, Q-query contents)", "§4 C08"),
 "C10": ("explicit-state BFS with every illegal-argument class as ordinary transitions at every reachable state; must panic, state oracle afterwards", "§4 C10"),
 "C11": ("explicit-state BFS with a recording listener; per transition the event multiset is compared with the model diff, delivery-time conditions checked", "§4 C11"),
}

manifest = {
 "version": 1,
 "setup_cmd": "./setup.sh",
 "hooks": {
  "guard": "verif",
  "enable": "go build -tags verif (harness module replaces github.com/mlange-42/arche with /repo; see check.sh)",
  "baseline_off_cmd": "cd /repo && go test -vet=off -count=1 ./...",
  "source_commits": subprocess.run("git -C /repo log --format=%H --grep='verif' -i", shell=True, capture_output=True, text=True).stdout.split(),
  "add_only": True,
 },
 "engines": [
  {"name": "wx", "path": "harness/wx", "serves_properties": sorted(checks), "kind_free_text": "hand-written explicit-state model checker: level-synchronous parallel BFS over the real implementation, replay-based successors, hashed canonical state dump"},
 ],
 "checks": [],
 "not_applicable": [],
 "notes": "All checks are ./check.sh <id> <tier>; it rebuilds the checker against /repo's working tree with -tags verif. Exit 0 = held (KNOWN-FINDING lines possible), 1 = VIOLATION line printed, 2 = the checker could not be built against /repo.",
}
for pid, (tech, ref) in sorted(checks.items()):
    manifest["checks"].append({
      "property_id": pid,
      "quick_cmd": f"./check.sh {pid} quick",
      "thorough_cmd": f"./check.sh {pid} thorough",
      "evidence_file": f"/verif/evidence/{pid}.json",
      "replay_cmd_template": "./check.sh replay {path}",
      "engine": "wx",
      "level_claimed": {"category": "model_checking", "text": "Bounded exhaustive exploration of operation histories on the real implementation against a reference model; exhaustive within the stated scope (fixpoint) or up to the completed depth.", "design_ref": ref},
      "level_note": WX_NOTE,
      "technique": tech,
    })
all_props = [json.loads(l)["id"] for l in open("properties.jsonl")]
for pid in all_props:
    if pid not in checks:
        manifest["not_applicable"].append({"property_id": pid, "reason": "check under construction in this session (not yet claimed)"})
json.dump(manifest, open("MANIFEST.json", "w"), indent=1)
print("checks:", len(manifest["checks"]), "not_applicable:", len(manifest["not_applicable"]))
