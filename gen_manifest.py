#!/usr/bin/env python3
"""Generates MANIFEST.json from the table below (kept in one place so that it stays valid)."""
import json, subprocess

WX_NOTE = ("Trusted base: the reference model (harness/sim/model.go) as a reading of the documentation; the canonical state dump "
           "and invariant checker compiled into ecs under build tag verif (a reflection self-test reports struct fields the dump does not cover and marks the run non-exhaustive); "
           "Go runtime. Bounded: at most K handles per epoch and small component/filter menus per scenario; scenarios that do not reach a fixpoint "
           "are exhaustive up to the completed depth reported in the evidence file.")

LEVEL_TEXT = {
 "wx": "Bounded exhaustive exploration of operation histories on the real implementation against a reference model; exhaustive within the stated scope (fixpoint) or up to the completed depth reported in the evidence.",
 "enum": "Exhaustive enumeration of a finite, stated input/sequence domain, every element executed on the real implementation and compared with a reference; no sampling.",
 "wx+model": "Bounded exhaustive exploration on the real implementation plus exhaustive exploration of a small collector model that is bound to the code by memory traces recorded through hooks.",
}
ENUM_NOTE = ("Trusted base: the reference semantics written in the harness (set algebra, documented ID-based equivalents, map model); Go runtime and reflect. "
             "The enumerated domain is stated in the evidence file; nothing outside it is claimed.")

checks = {
 "C01": ("wx", "explicit-state BFS over the real World vs reference model (storage oracle: Has/Mask/Ids/Get/value tokens + structural invariants on every state); capacity increments 1/2/128 and separate relation capacity increments, IDs spread over mask words and layout chunks; the generic Map/Query access paths (all arities) against the ID-based core", "§4 C01"),
 "C02": ("wx", "explicit-state BFS to fixpoint over entity-only worlds (all free-list shapes up to K handles) + bounded BFS with table moves, batch removal and Reset; handle oracle on every state and transition", "§4 C02"),
 "C03": ("wx", "explicit-state BFS; on every state every menu filter (mask, without, exclusive, relation, logic; plain and registered) is iterated with all Next/Step compositions, Count, EntityAt and accessor cross-checks; batch-result queries on every Q transition", "§4 C03"),
 "C04": ("enum", "exhaustive enumeration of the bounded input domain of the pure mask/filter functions against a set-algebra reference: all ID pairs, all pairs of masks over word-boundary IDs, all filter expressions to nesting depth 2; both builds", "§4 C04"),
 "C05": ("wx", "explicit-state BFS over relation scenarios (designated-parent scenario to fixpoint) vs reference model of target rules, incl. dead/recycled/self targets through every API taking a target", "§4 C05"),
 "C06": ("wx", "explicit-state BFS over table-lifecycle alphabets (target death, retirement, re-use, self targets, batch removal, Reset) vs reference model + structural invariants", "§4 C06"),
 "C07": ("wx", "explicit-state BFS with Register/Unregister as ordinary operations; cached vs model-evaluated selection on every state, batch ops through cached and plain filter; generic filter-builder call sequences containing Register against the core filter", "§4 C07"),
 "C08": ("wx", "explicit-state BFS; every batch transition is compared with the model's loop of single-entity operations (state, count, Q-query contents)", "§4 C08"),
 "C09": ("wx", "explicit-state BFS over open-query (lock) states of a fixed world with a generated table of ~90 structural entry points called at every locked state and inside removal listeners, read-only calls and rejected LoadEntities/registration probes + exhaustive linear sweeps over the number of open queries; both builds", "§4 C09"),
 "C10": ("wx", "explicit-state BFS with every illegal-argument class as ordinary transitions at every reachable state; must panic, state oracle afterwards; registry limit, illegal world construction, documented panics of query accessors", "§4 C10"),
 "C11": ("wx", "explicit-state BFS with a recording listener; per transition the event multiset is compared with the model diff; at delivery time lock state, the entity's components/target/values and the state of all other entities are compared with the operation's result", "§4 C11"),
 "C12": ("wx", "explicit-state BFS; for the last operation of every history all 64 subscription masks x component restrictions and Dispatch compositions are replayed and compared with the documented selection of the full event stream", "§4 C12"),
 "C13": ("wx", "explicit-state BFS with replay-determinism guard (state key + transcript hash on every replay) + cross-process comparison of canonical per-level digests under different GC regimes + a fixed script over listener.Dispatch / generic.Exchange / generic.Map replayed on fresh worlds", "§4 C13"),
 "C14": ("wx+model", "call-site matrix on the real runtime + BFS over histories with a full collection after every operation + exhaustive exploration of a tri-colour collector model against memory traces recorded from the implementation", "§4 C14"),
 "C15": ("wx", "explicit-state BFS over pairs (reset world, fresh world with the same registrations) in lock-step: identical handles and outcomes, both checked against the model", "§4 C15"),
 "C16": ("enum", "exhaustive enumeration of registration counts 0..limit+1 with re-lookups + deviation-bounded enumeration of registration/table-creation schedules + agreement of the generic and reflect-based entry points over 16 kinds of types x first-use orders; both builds", "§4 C16"),
 "C17": ("wx", "explicit-state BFS over entity-only worlds; dump/load pairs in lock-step (fresh worlds with capacity increment 1/2/128, a reset world, an emptied and twice reset world), kept dumps loaded later, JSON round trips", "§4 C17"),
 "C18": ("enum", "exhaustive enumeration of filter-builder call sequences (bounded length) and of all Map methods x arities 1..12 x 2 variants, the full generic.Exchange matrix (configuration x action x entity x target), each executed on the real generic API and compared with the ID-based core on a twin world", "§4 C18"),
 "C19": ("enum", "exhaustive enumeration of merge orders of pairs of histories on two real worlds (different registration orders), transcripts compared with solo runs + separate free-running race-detector pass over the same bodies", "§4 C19"),
 "C20": ("wx", "explicit-state BFS to fixpoint over resource/lock/entity states vs a map model through all three access paths incl. long-lived generic mappers touched only by explicit operations + linear sweep over all resource IDs (T and *T types); both builds", "§4 C20"),
}

manifest = {
 "version": 1,
 "setup_cmd": "./setup.sh",
 "hooks": {
  "guard": "verif",
  "enable": "go build -tags verif (harness module replaces github.com/mlange-42/arche with /repo; see check.sh)",
  "baseline_off_cmd": "cd /repo && go test -vet=off -count=1 ./...",
  "source_commits": subprocess.run("git -C /repo log --format=%H --grep='verif hooks\\|verification hooks' -i", shell=True, capture_output=True, text=True).stdout.split(),
  "add_only": True,
 },
 "engines": [
  {"name": "enumerators", "path": "harness/props", "serves_properties": sorted(k for k, v in checks.items() if not v[0].startswith("wx")), "kind_free_text": "exhaustive enumerators over finite input / call-sequence domains (C04 masks and filters, C16 registration schedules, C18 generic API, C19 merge orders), executing the real implementation against reference semantics"},
  {"name": "wx", "path": "harness/wx", "serves_properties": sorted(k for k, v in checks.items() if v[0].startswith("wx")), "kind_free_text": "hand-written explicit-state model checker: level-synchronous parallel BFS over the real implementation, replay-based successors, hashed canonical state dump"},
 ],
 "checks": [],
 "not_applicable": [],
 "notes": "All checks are ./check.sh <id> <tier>; it rebuilds the checker against /repo's working tree with -tags verif. Exit 0 = held (KNOWN-FINDING lines possible), 1 = VIOLATION line printed, 2 = the checker could not be built against /repo.",
}
for pid, (eng, tech, ref) in sorted(checks.items()):
    manifest["checks"].append({
      "property_id": pid,
      "quick_cmd": f"./check.sh {pid} quick",
      "thorough_cmd": f"./check.sh {pid} thorough",
      "evidence_file": f"/verif/evidence/{pid}.json",
      "replay_cmd_template": "./check.sh replay {path}",
      "engine": "wx" if eng.startswith("wx") else "enumerators",
      "level_claimed": {"category": "model_checking", "text": LEVEL_TEXT[eng], "design_ref": ref},
      "level_note": WX_NOTE if eng.startswith("wx") else ENUM_NOTE,
      "technique": tech,
    })
all_props = [json.loads(l)["id"] for l in open("properties.jsonl")]
for pid in all_props:
    if pid not in checks:
        manifest["not_applicable"].append({"property_id": pid, "reason": "check under construction in this session (not yet claimed)"})
json.dump(manifest, open("MANIFEST.json", "w"), indent=1)
print("checks:", len(manifest["checks"]), "not_applicable:", len(manifest["not_applicable"]))
