// Command c14cases runs the call-site matrix of property C14. It is built WITHOUT the verif tag: the hook in
// archetype.copy would itself make the copied pointers escape and thereby change what the compiler does at the call sites.
package main

import (
	"fmt"
	"os"
	"runtime"
	"runtime/debug"
	"strconv"

	"github.com/mlange-42/arche/ecs"
	"verifharness/gen14"
)

var garbage [][]uint64

func runCase(i int) {
	c := &gen14.Cases[i]
	w := ecs.NewWorld(ecs.NewConfig().WithCapacityIncrement(2))
	canary := 0xC0FFEE0000000000 | uint64(i+1)
	e := c.Run(&w, canary)
	// the call has returned: everything that lived in its frame is dead. Overwrite the stack, allocate, collect.
	gen14.Clobber(300, 0x1111111111111111)
	for k := 0; k < 200; k++ {
		garbage = append(garbage, make([]uint64, 8+k%64))
	}
	garbage = nil
	runtime.GC()
	gen14.Clobber(300, 0x2222222222222222)
	runtime.GC()
	got, ok := gen14.Read(&w, c, e)
	if !ok || got != canary {
		fmt.Printf("CASE %d CORRUPT %q: the value reachable through the stored component reads %#x, expected %#x\n", i, c.Name, got, canary)
		return
	}
	fmt.Printf("CASE %d OK %q\n", i, c.Name)
}

func main() {
	debug.SetGCPercent(10)
	if len(os.Args) > 1 && os.Args[1] == "list" {
		for i, c := range gen14.Cases {
			fmt.Printf("%d\t%s\n", i, c.Name)
		}
		return
	}
	if len(os.Args) > 1 {
		i, _ := strconv.Atoi(os.Args[1])
		runCase(i)
		return
	}
	for i := range gen14.Cases {
		runCase(i)
	}
}
