package main

import (
	"flag"
	"fmt"
	"os"
	"runtime/debug"
	"runtime/pprof"
	"strings"
	"time"

	"verifharness/props"
	"verifharness/runner"
	"verifharness/wx"
)

func usage() {
	fmt.Fprintln(os.Stderr, "usage: check <property> <quick|thorough> | check replay <file> | check explore -s <scenario> [-depth N] [-t seconds] | check list")
	os.Exit(2)
}

func main() {
	if len(os.Args) < 2 {
		usage()
	}
	if os.Getenv("GOGC") == "" {
		// replaying histories on fresh worlds allocates heavily; memory is plentiful
		debug.SetGCPercent(400)
	}
	if msg := props.ShapeSelfTest(); msg != "" {
		// a new field is not part of the state key: states that differ only there are merged (the search may cover less,
		// it can not raise a false alarm); recorded in the evidence
		fmt.Fprintln(os.Stderr, "WARNING: the canonical state dump (ecs.VerifShape) does not cover the current struct definitions: "+msg)
		runner.GlobalNotes = append(runner.GlobalNotes, "state dump does not cover: "+msg)
	}
	switch os.Args[1] {
	case "list":
		for _, id := range props.ScenarioIDs() {
			fmt.Println(id)
		}
	case "explore":
		fs := flag.NewFlagSet("explore", flag.ExitOnError)
		name := fs.String("s", "", "scenario id")
		depth := fs.Int("depth", 0, "max depth")
		secs := fs.Int("t", 60, "time budget (s)")
		maxStates := fs.Int("max", 0, "state cap")
		all := fs.Bool("all", false, "do not stop at the first violation")
		prof := fs.String("cpuprofile", "", "write cpu profile")
		prop := fs.String("prop", "", "use the accept function of this property's check")
		_ = fs.Parse(os.Args[2:])
		if *prof != "" {
			pf, _ := os.Create(*prof)
			_ = pprof.StartCPUProfile(pf)
			defer pprof.StopCPUProfile()
		}
		sc := props.Scenario(*name)
		if sc == nil {
			fmt.Fprintln(os.Stderr, "unknown scenario", *name)
			os.Exit(2)
		}
		cfg := wx.Config{MaxDepth: *depth, MaxStates: *maxStates, Deadline: time.Now().Add(time.Duration(*secs) * time.Second), StopOnViolation: !*all,
			OnLevel: func(d int, st *wx.Stats) {
				fmt.Printf("depth %d: states=%d trans=%d self=%d pruned=%d t=%.1fs\n", d, st.States, st.Transitions, st.SelfLoops, st.Pruned, st.Wall.Seconds())
			}}
		if *prop != "" {
			cfg.Accept = props.Accepts[*prop]
		}
		st := wx.Explore(sc, cfg)
		fmt.Printf("done: states=%d trans=%d depth=%d fixpoint=%t cap=%q wall=%.1fs (%.0f trans/s)\n", st.States, st.Transitions, st.CompletedDepth, st.Fixpoint, st.CapHit, st.Wall.Seconds(), float64(st.Transitions)/st.Wall.Seconds())
		fmt.Println("per kind:", st.PerKind)
		fmt.Println("outcomes:", st.Outcomes)
		for _, f := range st.Found {
			fmt.Printf("FOUND [%s] foreign=%t %s x%d: %s\n   %s\n", f.Prop, f.Foreign, f.Sig, f.Count, f.Msg, strings.Join(wx.PathStrings(sc, f.Path), "\n   "))
		}
	case "c13child":
		fs := flag.NewFlagSet("c13child", flag.ExitOnError)
		name := fs.String("s", "", "scenario id")
		depth := fs.Int("depth", 4, "depth")
		dump := fs.Int("dump", 0, "dump level")
		_ = fs.Parse(os.Args[2:])
		os.Exit(props.C13Child(*name, *depth, *dump))
	case "c19race":
		tier := "quick"
		if len(os.Args) > 2 {
			tier = os.Args[2]
		}
		os.Exit(props.C19RaceBody(tier))
	case "tinypart":
		if len(os.Args) < 4 {
			usage()
		}
		os.Exit(props.RunTinyPart(os.Args[2], os.Args[3]))
	case "replay":
		if len(os.Args) < 3 {
			usage()
		}
		os.Exit(props.Replay(os.Args[2]))
	default:
		if len(os.Args) < 3 {
			usage()
		}
		prop, tier := os.Args[1], os.Args[2]
		if tier != "quick" && tier != "thorough" {
			usage()
		}
		run := props.Checks[prop]
		if run == nil {
			fmt.Fprintln(os.Stderr, "no check for property", prop)
			os.Exit(2)
		}
		rp := runner.NewReport(prop, tier)
		code := func() (code int) {
			defer func() {
				if x := recover(); x != nil {
					// the library behaved in a way the checker's own bookkeeping did not survive (on the unchanged tree this never
					// happens): report it as a violation with the panic as evidence rather than dying
					rp.Violation(&runner.ReplayFile{Scenario: "check-" + prop, Sig: "check-panicked", Kind: "panic",
						Msg:     fmt.Sprintf("the check panicked while driving the library: %v", x),
						OpsText: strings.Split(string(debug.Stack()), "\n")})
					code = rp.Finish("model_checking", []string{"the check did not complete: it panicked while driving the library"}, nil)
				}
			}()
			return run(rp)
		}()
		os.Exit(code)
	}
}
