package main

import (
	"bytes"
	"flag"
	"fmt"
	"io"
	"os"
	"os/exec"
	"runtime"
	"runtime/debug"
	"runtime/pprof"
	"strings"
	"syscall"
	"time"

	"verifharness/props"
	"verifharness/runner"
	"verifharness/wx"
)

func usage() {
	fmt.Fprintln(os.Stderr, "usage: check <property> <quick|thorough> | check replay <file> | check explore -s <scenario> [-depth N] [-t seconds] | check list")
	os.Exit(2)
}

func main() {
	if len(os.Args) < 2 {
		usage()
	}
	{
		// memory budget of one exploring process (GB): the Go runtime collects harder near it, the explorer stops expanding above it
		gb := int64(20)
		if b, err := os.ReadFile("/proc/meminfo"); err == nil {
			var kb int64
			if _, err := fmt.Sscanf(string(b), "MemTotal: %d kB", &kb); err == nil && kb > 0 {
				if third := kb / (3 << 20); third < gb {
					gb = third // never more than a third of the machine
				}
				if gb < 2 {
					gb = 2
				}
			}
		}
		if v := os.Getenv("VERIF_MEM_GB"); v != "" {
			fmt.Sscan(v, &gb)
		}
		if gb > 0 {
			debug.SetMemoryLimit(gb << 30)
			wx.MemLimit = (gb << 30) * 9 / 10
		}
	}
	if os.Getenv("GOGC") == "" {
		// replaying histories on fresh worlds allocates heavily; memory is plentiful
		debug.SetGCPercent(400)
	}
	if msg := props.ShapeSelfTest(); msg != "" {
		// a new field is not part of the state key: states that differ only there are merged (the search may cover less,
		// it can not raise a false alarm); recorded in the evidence
		fmt.Fprintln(os.Stderr, "WARNING: the canonical state dump (ecs.VerifShape) does not cover the current struct definitions: "+msg)
		runner.GlobalNotes = append(runner.GlobalNotes, "state dump does not cover: "+msg)
	}
	switch os.Args[1] {
	case "list":
		for _, id := range props.ScenarioIDs() {
			fmt.Println(id)
		}
	case "explore":
		fs := flag.NewFlagSet("explore", flag.ExitOnError)
		name := fs.String("s", "", "scenario id")
		depth := fs.Int("depth", 0, "max depth")
		secs := fs.Int("t", 60, "time budget (s)")
		maxStates := fs.Int("max", 0, "state cap")
		all := fs.Bool("all", false, "do not stop at the first violation")
		prof := fs.String("cpuprofile", "", "write cpu profile")
		prop := fs.String("prop", "", "use the accept function of this property's check")
		_ = fs.Parse(os.Args[2:])
		if *prof != "" {
			pf, _ := os.Create(*prof)
			_ = pprof.StartCPUProfile(pf)
			defer pprof.StopCPUProfile()
		}
		sc := props.Scenario(*name)
		if sc == nil {
			fmt.Fprintln(os.Stderr, "unknown scenario", *name)
			os.Exit(2)
		}
		cfg := wx.Config{MaxDepth: *depth, MaxStates: *maxStates, Deadline: time.Now().Add(time.Duration(*secs) * time.Second), StopOnViolation: !*all,
			OnLevel: func(d int, st *wx.Stats) {
				fmt.Printf("depth %d: states=%d trans=%d self=%d pruned=%d t=%.1fs\n", d, st.States, st.Transitions, st.SelfLoops, st.Pruned, st.Wall.Seconds())
			}}
		if *prop != "" {
			cfg.Accept = props.Accepts[*prop]
		}
		st := wx.Explore(sc, cfg)
		fmt.Printf("done: states=%d trans=%d depth=%d fixpoint=%t cap=%q wall=%.1fs (%.0f trans/s)\n", st.States, st.Transitions, st.CompletedDepth, st.Fixpoint, st.CapHit, st.Wall.Seconds(), float64(st.Transitions)/st.Wall.Seconds())
		fmt.Println("per kind:", st.PerKind)
		fmt.Println("outcomes:", st.Outcomes)
		for _, f := range st.Found {
			fmt.Printf("FOUND [%s] foreign=%t %s x%d: %s\n   %s\n", f.Prop, f.Foreign, f.Sig, f.Count, f.Msg, strings.Join(wx.PathStrings(sc, f.Path), "\n   "))
		}
	case "c13child":
		fs := flag.NewFlagSet("c13child", flag.ExitOnError)
		name := fs.String("s", "", "scenario id")
		depth := fs.Int("depth", 4, "depth")
		dump := fs.Int("dump", 0, "dump level")
		_ = fs.Parse(os.Args[2:])
		os.Exit(props.C13Child(*name, *depth, *dump))
	case "c19race":
		tier := "quick"
		if len(os.Args) > 2 {
			tier = os.Args[2]
		}
		os.Exit(props.C19RaceBody(tier))
	case "tinypart":
		if len(os.Args) < 4 {
			usage()
		}
		os.Exit(props.RunTinyPart(os.Args[2], os.Args[3]))
	case "replay":
		if len(os.Args) < 3 {
			usage()
		}
		os.Exit(props.Replay(os.Args[2]))
	default:
		if len(os.Args) < 3 {
			usage()
		}
		prop, tier := os.Args[1], os.Args[2]
		if tier != "quick" && tier != "thorough" {
			usage()
		}
		run := props.Checks[prop]
		if run == nil {
			fmt.Fprintln(os.Stderr, "no check for property", prop)
			os.Exit(2)
		}
		if os.Getenv("VERIF_SUPERVISED") == "" {
			os.Exit(supervise(prop, tier))
		}
		if os.Getenv("VERIF_SELFTEST_CRASH") != "" {
			// self-test of the supervision: die the way a corrupted heap makes the runtime die
			go func() { panic("self-test: unrecovered panic in a worker goroutine") }()
			time.Sleep(time.Second)
		}
		rp := runner.NewReport(prop, tier)
		code := func() (code int) {
			defer func() {
				if x := recover(); x != nil {
					// the library behaved in a way the checker's own bookkeeping did not survive (on the unchanged tree this never
					// happens): report it as a violation with the panic as evidence rather than dying
					rp.Violation(&runner.ReplayFile{Scenario: "check-" + prop, Sig: "check-panicked", Kind: "panic",
						Msg:     fmt.Sprintf("the check panicked while driving the library: %v", x),
						OpsText: strings.Split(string(debug.Stack()), "\n")})
					code = rp.Finish("model_checking", []string{"the check did not complete: it panicked while driving the library"}, nil)
				}
			}()
			return run(rp)
		}()
		os.Exit(code)
	}
}

// tail keeps the last part of what was written to it.
type tail struct {
	buf bytes.Buffer
	max int
}

func (t *tail) Write(p []byte) (int, error) {
	t.buf.Write(p)
	if t.buf.Len() > 2*t.max {
		b := append([]byte{}, t.buf.Bytes()[t.buf.Len()-t.max:]...)
		t.buf.Reset()
		t.buf.Write(b)
	}
	return len(p), nil
}

// supervise runs the check in a child process. The library is driven through unsafe memory: a defect can corrupt memory so
// that the Go runtime aborts the process (fatal error, unexpected signal) instead of raising a recoverable panic. Such a death
// is reported as a violation with the runtime's message as evidence; any other exit status is passed through.
func supervise(prop, tier string) int {
	self, err := os.Executable()
	if err != nil {
		self = os.Args[0]
	}
	cmd := exec.Command(self, os.Args[1:]...)
	cmd.Env = append(os.Environ(), "VERIF_SUPERVISED=1")
	cmd.Stdout = os.Stdout
	cmd.Stdin = nil
	// the child never outlives the supervisor (the death signal is tied to the creating thread: keep it)
	runtime.LockOSThread()
	cmd.SysProcAttr = &syscall.SysProcAttr{Pdeathsig: syscall.SIGKILL}
	t := &tail{max: 1 << 16}
	cmd.Stderr = io.MultiWriter(os.Stderr, t)
	err = cmd.Run()
	if err == nil {
		return 0
	}
	code := -1
	if ee, ok := err.(*exec.ExitError); ok {
		code = ee.ExitCode()
	}
	if code == 1 {
		return 1
	}
	out := t.buf.String()
	if strings.Contains(out, "out of memory") || strings.Contains(out, "cannot allocate memory") {
		fmt.Fprintln(os.Stderr, "the check ran out of memory; nothing is concluded")
		return 2
	}
	if code == -1 {
		// killed by a signal (the kernel's out-of-memory killer, a time limit imposed from outside): not the library's doing
		fmt.Fprintln(os.Stderr, "the exploring process was killed by a signal (out of memory? time limit?); nothing is concluded")
		return 2
	}
	// the child was started for a valid property and tier: it ends with status 0 or 1 unless the Go runtime aborts it
	fmt.Fprintf(os.Stderr, "the exploring process ended abnormally (exit status %d)\n", code)
	lines := strings.Split(out, "\n")
	if i := strings.Index(out, "fatal error:"); i >= 0 {
		lines = strings.Split(out[i:], "\n")
	} else if i := strings.Index(out, "panic:"); i >= 0 {
		lines = strings.Split(out[i:], "\n")
	}
	if len(lines) > 60 {
		lines = lines[:60]
	}
	rp := runner.NewReport(prop, tier)
	rp.Violation(&runner.ReplayFile{Scenario: "check-" + prop, Sig: "check-process-died", Kind: "crash",
		Msg:     fmt.Sprintf("the process exploring the library was aborted by the Go runtime (exit status %d): %s", code, strings.TrimSpace(lines[0])),
		OpsText: lines, Extra: map[string]interface{}{"property": prop, "tier": tier}})
	return rp.Finish("model_checking", []string{"the check did not complete: the exploring process was aborted by the Go runtime (memory corrupted through the library's unsafe storage?)"}, nil)
}
