// Package gen18 holds concrete instantiations of the generic API for every arity behind common interfaces,
// so that one hand-written driver can exercise all of them. zz_generated.go is produced by generate.py.
package gen18

import (
	"unsafe"

	"github.com/mlange-42/arche/ecs"
	"github.com/mlange-42/arche/generic"
)

// Component types for the arity positions.
type (
	G0  struct{ V uint64 }
	G1  struct{ V uint64 }
	G2  struct{ V uint64 }
	G3  struct{ V uint64 }
	G4  struct{ V uint64 }
	G5  struct{ V uint64 }
	G6  struct{ V uint64 }
	G7  struct{ V uint64 }
	G8  struct{ V uint64 }
	G9  struct{ V uint64 }
	G10 struct{ V uint64 }
	G11 struct{ V uint64 }
	// GR is a relation component.
	GR struct {
		ecs.Relation
		V uint64
	}
	// GX and GY are extra components for With/Without.
	GX struct{ V uint64 }
	GY struct{ V uint64 }
)

// Query is the common view of QueryN.
type Query interface {
	Q() *ecs.Query
	Get() []unsafe.Pointer
	Relation() ecs.Entity
}

// Filter is the common view of FilterN.
type Filter interface {
	With(c ...generic.Comp)
	Without(c ...generic.Comp)
	Optional(c ...generic.Comp)
	Exclusive()
	WithRelation(c generic.Comp, t ...ecs.Entity)
	Register(w *ecs.World)
	Unregister(w *ecs.World)
	Filter(w *ecs.World, t ...ecs.Entity) ecs.Filter
	Query(w *ecs.World, t ...ecs.Entity) Query
}

// Map is the common view of MapN.
type Map interface {
	New(t ...ecs.Entity) ecs.Entity
	NewBatch(c int, t ...ecs.Entity)
	NewBatchQ(c int, t ...ecs.Entity) Query
	NewWith(v []uint64, t ...ecs.Entity) ecs.Entity
	Add(e ecs.Entity, t ...ecs.Entity)
	AddBatch(f ecs.Filter, t ...ecs.Entity) int
	AddBatchQ(f ecs.Filter, t ...ecs.Entity) Query
	Assign(e ecs.Entity, v []uint64)
	Remove(e ecs.Entity, t ...ecs.Entity)
	RemoveBatch(f ecs.Filter, t ...ecs.Entity) int
	RemoveBatchQ(f ecs.Filter, t ...ecs.Entity) Query
	RemoveEntities(excl bool) int
	Get(e ecs.Entity) []unsafe.Pointer
	GetUnchecked(e ecs.Entity) []unsafe.Pointer
}

// Arity describes one instantiation.
type Arity struct {
	N         int
	Rel       bool
	Types     []generic.Comp
	NewFilter func() Filter
	NewMap    func(w *ecs.World, rel ...generic.Comp) Map
	TN        func() []generic.Comp // generic.T<N>[...]() for the same type list
}
