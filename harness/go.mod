module verifharness

go 1.23

require github.com/mlange-42/arche v0.0.0

replace github.com/mlange-42/arche => /repo
