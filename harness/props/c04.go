package props

import (
	"fmt"
	"runtime"
	"sync"
	"sync/atomic"

	"github.com/mlange-42/arche/ecs"
	"github.com/mlange-42/arche/filter"
	"verifharness/runner"
	"verifharness/sim"
)

// reference set of component IDs
type idset [256]bool

func (s *idset) count() int {
	n := 0
	for _, b := range s {
		if b {
			n++
		}
	}
	return n
}

func refMask(ids []uint8) idset {
	var s idset
	for _, i := range ids {
		s[i] = true
	}
	return s
}

func implMask(ids []uint8) ecs.Mask {
	l := make([]ecs.ID, len(ids))
	for i, x := range ids {
		l[i] = sim.IDOf(x)
	}
	return ecs.All(l...)
}

func maskEquals(m *ecs.Mask, s *idset, n int) (bool, int) {
	for i := 0; i < n; i++ {
		if m.Get(sim.IDOf(uint8(i))) != s[i] {
			return false, i
		}
	}
	return true, -1
}

type c04fail struct {
	sig, msg string
}

func c04Part(rp *runner.Report) {
	N := ecs.MaskTotalBits
	var evals int64
	var failMu sync.Mutex
	var fails []c04fail
	fail := func(sig, msg string) {
		failMu.Lock()
		if len(fails) < 5 {
			fails = append(fails, c04fail{sig, msg})
		}
		failMu.Unlock()
	}
	par := func(n int, f func(i int)) {
		var wg sync.WaitGroup
		var next int64 = -1
		for w := 0; w < runtime.NumCPU(); w++ {
			wg.Add(1)
			go func() {
				defer wg.Done()
				for {
					i := int(atomic.AddInt64(&next, 1))
					if i >= n {
						return
					}
					f(i)
				}
			}()
		}
		wg.Wait()
	}
	// (a) all ordered ID pairs: All, Set(true/false), Get over the whole range, TotalBitsSet, IsZero, Reset
	par(N, func(i int) {
		for j := 0; j < N; j++ {
			m := ecs.All(sim.IDOf(uint8(i)))
			m.Set(sim.IDOf(uint8(j)), true)
			want := refMask([]uint8{uint8(i), uint8(j)})
			if ok, at := maskEquals(&m, &want, N); !ok {
				fail("mask:set-get", fmt.Sprintf("All(%d) then Set(%d,true): Get(%d) = %t", i, j, at, !want[at]))
				return
			}
			if m.TotalBitsSet() != want.count() {
				fail("mask:totalbits", fmt.Sprintf("All(%d,%d).TotalBitsSet() = %d", i, j, m.TotalBitsSet()))
				return
			}
			m2 := ecs.All(sim.IDOf(uint8(i)), sim.IDOf(uint8(j)))
			if m2 != m {
				fail("mask:all", fmt.Sprintf("All(%d,%d) differs from All(%d)+Set(%d)", i, j, i, j))
				return
			}
			m.Set(sim.IDOf(uint8(i)), false)
			want[i] = false
			if ok, at := maskEquals(&m, &want, N); !ok {
				fail("mask:unset", fmt.Sprintf("All(%d,%d) then Set(%d,false): Get(%d) = %t", i, j, i, at, !want[at]))
				return
			}
			if m.IsZero() != (want.count() == 0) {
				fail("mask:iszero", fmt.Sprintf("IsZero wrong for ids %d,%d", i, j))
				return
			}
			m.Reset()
			if !m.IsZero() || m.TotalBitsSet() != 0 {
				fail("mask:reset", fmt.Sprintf("Reset leaves bits set (ids %d,%d)", i, j))
				return
			}
			atomic.AddInt64(&evals, 6)
		}
	})
	// (b) all pairs of masks over the boundary IDs (and their complements)
	bound := []uint8{0, 1, 63, 64, 65, 127, 128, 191, 192, 255}
	if N == 64 {
		bound = []uint8{0, 1, 15, 16, 31, 32, 33, 47, 62, 63}
	}
	nb := len(bound)
	subset := func(bits int) []uint8 {
		ids := []uint8{}
		for k := 0; k < nb; k++ {
			if bits&(1<<k) != 0 {
				ids = append(ids, bound[k])
			}
		}
		return ids
	}
	type mk struct {
		m ecs.Mask
		s idset
	}
	all := make([]mk, 0, 2<<nb)
	for b := 0; b < 1<<nb; b++ {
		ids := subset(b)
		x := mk{m: implMask(ids), s: refMask(ids)}
		all = append(all, x)
		// complement
		nm := x.m.Not()
		var ns idset
		for i := 0; i < N; i++ {
			ns[i] = !x.s[i]
		}
		if ok, at := maskEquals(&nm, &ns, N); !ok {
			fail("mask:not", fmt.Sprintf("Not() of ids %v: Get(%d) = %t", ids, at, !ns[at]))
		}
		if b%8 == 0 {
			all = append(all, mk{m: nm, s: ns})
		}
	}
	par(len(all), func(ai int) {
		a := &all[ai]
		for bi := range all {
			b := &all[bi]
			var and, or, xor idset
			contains, any := true, false
			for i := 0; i < N; i++ {
				and[i] = a.s[i] && b.s[i]
				or[i] = a.s[i] || b.s[i]
				xor[i] = a.s[i] != b.s[i]
				if b.s[i] && !a.s[i] {
					contains = false
				}
				if b.s[i] && a.s[i] {
					any = true
				}
			}
			r := a.m.And(&b.m)
			if ok, at := maskEquals(&r, &and, N); !ok {
				fail("mask:and", fmt.Sprintf("And wrong at id %d", at))
				return
			}
			r = a.m.Or(&b.m)
			if ok, at := maskEquals(&r, &or, N); !ok {
				fail("mask:or", fmt.Sprintf("Or wrong at id %d", at))
				return
			}
			r = a.m.Xor(&b.m)
			if ok, at := maskEquals(&r, &xor, N); !ok {
				fail("mask:xor", fmt.Sprintf("Xor wrong at id %d", at))
				return
			}
			if r.TotalBitsSet() != xor.count() {
				fail("mask:totalbits", "TotalBitsSet wrong for an Xor result")
				return
			}
			if a.m.Contains(&b.m) != contains {
				fail("mask:contains", fmt.Sprintf("Contains = %t, expected %t (masks #%d, #%d of the boundary enumeration)", !contains, contains, ai, bi))
				return
			}
			if a.m.ContainsAny(&b.m) != any {
				fail("mask:containsany", fmt.Sprintf("ContainsAny = %t, expected %t (masks #%d, #%d)", !any, any, ai, bi))
				return
			}
			// mask as filter: matches component sets containing all its IDs
			if b.m.Matches(&a.m) != contains {
				fail("filter:mask", fmt.Sprintf("Mask.Matches = %t, expected %t", !contains, contains))
				return
			}
			// Exclusive: exactly the included ones
			ex := b.m.Exclusive()
			if ex.Matches(&a.m) != (a.s == b.s) {
				fail("filter:exclusive", fmt.Sprintf("Exclusive().Matches = %t, expected %t (masks #%d, #%d)", ex.Matches(&a.m), a.s == b.s, ai, bi))
				return
			}
			atomic.AddInt64(&evals, 8)
		}
	})
	// Without: include/exclude over subsets of 5 boundary IDs each, against all masks of the boundary enumeration
	par(1<<5, func(inc int) {
		for exc := 0; exc < 1<<5; exc++ {
			incIDs, excIDs := []uint8{}, []uint8{}
			// include and exclude sets are drawn from the same five IDs (one per mask word plus a neighbour), so that
			// overlapping include/exclude sets - which must match nothing - are part of the domain
			pool := []uint8{bound[0], bound[3], bound[5], bound[7], bound[9]}
			for k := 0; k < 5; k++ {
				if inc&(1<<k) != 0 {
					incIDs = append(incIDs, pool[k])
				}
				if exc&(1<<k) != 0 {
					excIDs = append(excIDs, pool[k])
				}
			}
			el := make([]ecs.ID, len(excIDs))
			for i, x := range excIDs {
				el[i] = sim.IDOf(x)
			}
			im := implMask(incIDs)
			f := im.Without(el...)
			mf := ecs.MaskFilter{Include: im, Exclude: implMask(excIDs)}
			for ai := range all {
				a := &all[ai]
				want := true
				for _, x := range incIDs {
					if !a.s[x] {
						want = false
					}
				}
				for _, x := range excIDs {
					if a.s[x] {
						want = false
					}
				}
				if f.Matches(&a.m) != want || mf.Matches(&a.m) != want {
					fail("filter:without", fmt.Sprintf("All(%v).Without(%v).Matches = %t, expected %t", incIDs, excIDs, f.Matches(&a.m), want))
					return
				}
				atomic.AddInt64(&evals, 2)
			}
		}
	})
	// (c) logic filter expressions over a 3-component universe placed in three words, with extra bits elsewhere
	uni := []uint8{1, 70, 200}
	extra := [][]uint8{{}, {5}, {130}, {5, 130, 250}}
	if N == 64 {
		uni = []uint8{1, 33, 62}
		extra = [][]uint8{{}, {5}, {40}, {5, 40, 63}}
	}
	type expr struct {
		f    ecs.Filter
		eval func(s *idset) bool
		name string
	}
	sub3 := func(b int) []uint8 {
		ids := []uint8{}
		for k := 0; k < 3; k++ {
			if b&(1<<k) != 0 {
				ids = append(ids, uni[k])
			}
		}
		return ids
	}
	toIDs := func(x []uint8) []ecs.ID {
		l := make([]ecs.ID, len(x))
		for i, v := range x {
			l[i] = sim.IDOf(v)
		}
		return l
	}
	hasAll := func(s *idset, ids []uint8) bool {
		for _, x := range ids {
			if !s[x] {
				return false
			}
		}
		return true
	}
	hasAny := func(s *idset, ids []uint8) bool {
		for _, x := range ids {
			if s[x] {
				return true
			}
		}
		return false
	}
	leaves := []expr{}
	for b := 0; b < 8; b++ {
		ids := sub3(b)
		il := toIDs(ids)
		leaves = append(leaves,
			expr{filter.All(il...), func(s *idset) bool { return hasAll(s, ids) }, fmt.Sprintf("All%v", ids)},
			expr{filter.Any(il...), func(s *idset) bool { return hasAny(s, ids) }, fmt.Sprintf("Any%v", ids)},
			expr{filter.NoneOf(il...), func(s *idset) bool { return !hasAny(s, ids) }, fmt.Sprintf("NoneOf%v", ids)},
			expr{filter.AnyNot(il...), func(s *idset) bool { return !hasAll(s, ids) }, fmt.Sprintf("AnyNot%v", ids)},
		)
		m := ecs.All(il...)
		ex := m.Exclusive()
		want := refMask(ids)
		leaves = append(leaves, expr{&ex, func(s *idset) bool { return *s == want }, fmt.Sprintf("Exclusive%v", ids)})
		for c := 0; c < 8; c++ {
			exc := sub3(c)
			wf := m.Without(toIDs(exc)...)
			leaves = append(leaves, expr{&wf, func(s *idset) bool { return hasAll(s, ids) && !hasAny(s, exc) }, fmt.Sprintf("All%v.Without%v", ids, exc)})
		}
	}
	// evaluation contexts
	type ctxT struct {
		m ecs.Mask
		s idset
	}
	ctxs := []ctxT{}
	for b := 0; b < 8; b++ {
		for _, ex := range extra {
			ids := append(append([]uint8{}, sub3(b)...), ex...)
			ctxs = append(ctxs, ctxT{implMask(ids), refMask(ids)})
		}
	}
	check := func(e *expr) bool {
		// a relation filter and a registered filter match component sets exactly like the filter they wrap
		rf := ecs.NewRelationFilter(e.f, ecs.Entity{})
		for ci := range ctxs {
			c := &ctxs[ci]
			if got, want := e.f.Matches(&c.m), e.eval(&c.s); got != want {
				fail("filter:logic", fmt.Sprintf("%s matches component set #%d: %t, expected %t", e.name, ci, got, want))
				return false
			}
			if got, want := rf.Matches(&c.m), e.eval(&c.s); got != want {
				fail("filter:relation-wrapper", fmt.Sprintf("RelationFilter(%s) matches component set #%d: %t, expected %t", e.name, ci, got, want))
				return false
			}
		}
		atomic.AddInt64(&evals, int64(len(ctxs)))
		return true
	}
	for i := range leaves {
		check(&leaves[i])
	}
	{
		w := ecs.NewWorld()
		for i := range leaves {
			cf := w.Cache().Register(leaves[i].f)
			for ci := range ctxs {
				if got, want := cf.Matches(&ctxs[ci].m), leaves[i].eval(&ctxs[ci].s); got != want {
					fail("filter:cached-wrapper", fmt.Sprintf("registered %s matches component set #%d: %t, expected %t", leaves[i].name, ci, got, want))
				}
			}
			atomic.AddInt64(&evals, int64(len(ctxs)))
			if back := w.Cache().Unregister(&cf); back != leaves[i].f {
				fail("filter:unregister", "Unregister does not return the original filter")
			}
		}
	}
	combine := func(l, r *expr) []expr {
		return []expr{
			{filter.And(l.f, r.f), func(s *idset) bool { return l.eval(s) && r.eval(s) }, "And(" + l.name + "," + r.name + ")"},
			{filter.Or(l.f, r.f), func(s *idset) bool { return l.eval(s) || r.eval(s) }, "Or(" + l.name + "," + r.name + ")"},
			{filter.XOr(l.f, r.f), func(s *idset) bool { return l.eval(s) != r.eval(s) }, "XOr(" + l.name + "," + r.name + ")"},
		}
	}
	not := func(l *expr) expr {
		return expr{filter.Not(l.f), func(s *idset) bool { return !l.eval(s) }, "Not(" + l.name + ")"}
	}
	// depth 1: all pairs of leaves; depth 2: depth-1 expressions (over a leaf selection) combined with every leaf, and negations
	sel := []int{}
	step := 3
	if rp.Tier == "thorough" {
		step = 1
	}
	for i := 0; i < len(leaves); i += step {
		sel = append(sel, i)
	}
	depth2 := int64(0)
	par(len(leaves), func(i int) {
		l := &leaves[i]
		n1 := not(l)
		check(&n1)
		nn := not(&n1)
		check(&nn)
		for j := range leaves {
			d1 := combine(l, &leaves[j])
			for k := range d1 {
				if !check(&d1[k]) {
					return
				}
			}
			inSel := false
			for _, s := range sel {
				if s == j {
					inSel = true
				}
			}
			if !inSel {
				continue
			}
			for k := range d1 {
				nd := not(&d1[k])
				check(&nd)
				for _, s2 := range sel {
					d2 := combine(&d1[k], &leaves[s2])
					for q := range d2 {
						if !check(&d2[q]) {
							return
						}
						atomic.AddInt64(&depth2, 1)
					}
					d2b := combine(&leaves[s2], &nd)
					for q := range d2b {
						if !check(&d2b[q]) {
							return
						}
						atomic.AddInt64(&depth2, 1)
					}
				}
			}
		}
	})
	rp.Trans += int(evals)
	rp.States += N*N + len(all)*len(all) + len(leaves)*len(leaves)*3 + int(depth2)
	rp.Extra["c04_"+buildName()] = map[string]interface{}{
		"mask_bits": N, "id_pairs": N * N, "boundary_ids": bound, "boundary_masks_incl_complements": len(all), "mask_pairs": len(all) * len(all),
		"filter_leaves": len(leaves), "depth1_expressions": len(leaves)*len(leaves)*3 + 2*len(leaves), "depth2_expressions": depth2, "contexts_per_expression": len(ctxs), "evaluations": evals,
	}
	if len(rp.Samples) < 6 {
		rp.Samples = append(rp.Samples, map[string]interface{}{"build": buildName(), "example_id_pair": []int{63, 64}, "example_masks": []interface{}{subset(5), subset(1000 % (1 << nb))}, "example_expression": "XOr(And(" + leaves[3].name + "," + leaves[17].name + ")," + leaves[40].name + ")"})
	}
	fmt.Printf("  C04 (%s build): %d id pairs, %d mask pairs, %d leaves, %d depth-2 expressions, %d evaluations\n", buildName(), N*N, len(all)*len(all), len(leaves), depth2, evals)
	seen := map[string]bool{}
	for _, f := range fails {
		if seen[f.sig] {
			continue
		}
		seen[f.sig] = true
		rp.Violation(&runner.ReplayFile{Scenario: "c04-" + buildName(), Sig: f.sig, Msg: f.msg, OpsText: []string{f.msg}, Kind: "c04", Extra: map[string]interface{}{"build": buildName()}})
	}
}

func init() {
	TinyParts["C04"] = c04Part
	Checks["C04"] = func(rp *runner.Report) int {
		c04Part(rp)
		mergeTiny(rp)
		rp.NoRuns = true
		return rp.Finish("model_checking", []string{
			"Mask operations and filter matching are pure functions: the explored space is the input domain. Exhaustive over all ordered ID pairs, all pairs of masks over 10 word-boundary IDs (plus complements), and all filter expressions up to nesting depth 2 over a 3-component universe spread over three mask words, evaluated on all component subsets with and without extra bits in other words",
			"masks with bits only at non-boundary positions are not enumerated; the unrolled per-word code treats all positions of a word alike",
		}, map[string]interface{}{"method": "exhaustive enumeration of the bounded input domain against a set-algebra / boolean reference, both mask-width builds"})
	}
	replayers["c04"] = func(rf *runner.ReplayFile) int {
		rp := runner.NewReport("C04", "quick")
		c04Part(rp)
		if len(rp.Violations) > 0 {
			return 1
		}
		fmt.Println("no failure")
		return 0
	}
}
