package props

import (
	"bufio"
	"bytes"
	"encoding/json"
	"fmt"
	"os"
	"os/exec"
	"path/filepath"
	"runtime/debug"
	"strings"

	"github.com/mlange-42/arche/ecs"
	"verifharness/runner"
	"verifharness/sim"
	"verifharness/wx"
)

// IsTiny reports whether this binary was built with the `tiny` tag.
func IsTiny() bool { return ecs.MaskTotalBits == 64 }

func buildName() string {
	if IsTiny() {
		return "tiny"
	}
	return "default"
}

// TinyResult is what the tiny-build child process reports to its parent.
type TinyResult struct {
	States      int                      `json:"states"`
	Transitions int                      `json:"transitions"`
	Violations  []string                 `json:"violations"`
	Known       map[string]string        `json:"known"`
	Runs        []map[string]interface{} `json:"runs"`
	Extra       map[string]interface{}   `json:"extra"`
	Exhaustive  bool                     `json:"exhaustive"`
}

// TinyParts maps property ids to the part of the check that also runs in the `tiny` build.
var TinyParts = map[string]func(rp *runner.Report){}

// RunTinyPart is the entry point of the child process (bin/check_tiny tinypart <prop> <tier>).
func RunTinyPart(prop, tier string) int {
	f := TinyParts[prop]
	if f == nil {
		return 2
	}
	rp := runner.NewReport(prop, tier)
	func() {
		defer func() {
			if x := recover(); x != nil {
				rp.Violation(&runner.ReplayFile{Scenario: "check-" + prop + "-tiny", Sig: "check-panicked", Kind: "panic",
					Msg: fmt.Sprintf("the check (tiny build) panicked while driving the library: %v", x), OpsText: strings.Split(string(debug.Stack()), "\n")})
			}
		}()
		f(rp)
	}()
	res := TinyResult{States: rp.States, Transitions: rp.Trans, Violations: rp.Violations, Known: rp.Known, Runs: rp.Runs, Extra: rp.Extra, Exhaustive: rp.Exhaustive}
	b, _ := json.Marshal(&res)
	fmt.Println("TINY-JSON " + string(b))
	return 0
}

// mergeTiny runs the tiny-build part in a child process and merges its results into the report.
func mergeTiny(rp *runner.Report) {
	if IsTiny() {
		return
	}
	exe := filepath.Join(runner.Root, "bin", "check_tiny")
	if _, err := os.Stat(exe); err != nil {
		rp.Notes = append(rp.Notes, "tiny build not available: "+err.Error())
		rp.Exhaustive = false
		return
	}
	cmd := exec.Command(exe, "tinypart", rp.Prop, rp.Tier)
	var out bytes.Buffer
	cmd.Stdout = &out
	cmd.Stderr = os.Stderr
	err := cmd.Run()
	sc := bufio.NewScanner(&out)
	sc.Buffer(make([]byte, 1<<20), 1<<26)
	got := false
	for sc.Scan() {
		l := sc.Text()
		if strings.HasPrefix(l, "TINY-JSON ") {
			var res TinyResult
			if json.Unmarshal([]byte(strings.TrimPrefix(l, "TINY-JSON ")), &res) == nil {
				got = true
				rp.States += res.States
				rp.Trans += res.Transitions
				rp.Violations = append(rp.Violations, res.Violations...)
				for k, v := range res.Known {
					rp.Known[k] = v
				}
				for _, r := range res.Runs {
					r["build"] = "tiny"
					rp.Runs = append(rp.Runs, r)
				}
				if !res.Exhaustive {
					rp.Exhaustive = false
				}
				rp.Extra["tiny_build"] = res.Extra
			}
			continue
		}
		fmt.Println("  [tiny] " + strings.TrimLeft(l, " "))
		if strings.HasPrefix(l, "VIOLATION ") || strings.HasPrefix(l, "KNOWN-FINDING") {
			fmt.Println(l)
		}
	}
	if !got {
		rp.Notes = append(rp.Notes, fmt.Sprintf("tiny-build part did not complete: %v", err))
		rp.Exhaustive = false
		if ee, ok := err.(*exec.ExitError); ok && ee.ExitCode() > 0 {
			// the child was aborted by the Go runtime while driving the library (its message is on stderr)
			rp.Violation(&runner.ReplayFile{Scenario: "check-" + rp.Prop + "-tiny", Sig: "check-process-died", Kind: "crash",
				Msg:     fmt.Sprintf("the process exploring the library in the tiny build was aborted (exit status %d); see the runtime's message above", ee.ExitCode()),
				OpsText: []string{"bin/check_tiny tinypart " + rp.Prop + " " + rp.Tier}, Extra: map[string]interface{}{"property": rp.Prop}})
		}
	}
}

// lockSweep: open n = 1..limit+1 queries, close them in three orders, re-open; repeated over cycles on the same world.
func lockSweep(rp *runner.Report) {
	limit := ecs.MaskTotalBits
	evals := 0
	orders := []string{"FIFO", "LIFO", "alternating"}
	viol := func(sig, msg string, hist []string) {
		rp.Violation(&runner.ReplayFile{Scenario: "c09-lock-sweep-" + buildName(), Sig: sig, Msg: msg, OpsText: hist, Kind: "c09sweep", Extra: map[string]interface{}{"build": buildName()}})
	}
	for oi, order := range orders {
		w := ecs.NewWorld()
		a := ecs.ComponentID[sim.CompA](&w)
		w.NewEntity(a)
		w.NewEntity(a)
		sizes := []int{}
		for n := 1; n <= limit; n++ {
			if n <= 3 || n >= limit-1 || n%61 == 0 || n == limit/2 {
				sizes = append(sizes, n)
			}
		}
		// every n up to the limit in the first order, a boundary selection in the others
		if oi == 0 {
			sizes = sizes[:0]
			for n := 1; n <= limit; n++ {
				sizes = append(sizes, n)
			}
		}
		sizes = append(sizes, limit, limit) // repeated full cycles
		for _, n := range sizes {
			hist := []string{fmt.Sprintf("(%s build, close order %s, same world re-used over growing n)", buildName(), order), fmt.Sprintf("open %d queries", n)}
			qs := make([]ecs.Query, 0, n+1)
			bad := false
			for i := 0; i < n; i++ {
				var q ecs.Query
				pv := catchP(func() { q = w.Query(ecs.All(a)) })
				evals++
				if pv != nil {
					viol("sweep:open-panic", fmt.Sprintf("opening query %d of %d (limit %d) panicked: %v", i+1, n, limit, pv), hist)
					bad = true
					break
				}
				qs = append(qs, q)
				if !w.IsLocked() {
					viol("sweep:unlocked", fmt.Sprintf("world not locked with %d open queries", i+1), hist)
					bad = true
					break
				}
			}
			if bad {
				return
			}
			if n == limit {
				pv := catchP(func() { q := w.Query(ecs.All(a)); q.Close() })
				evals++
				if pv == nil {
					viol("sweep:no-limit", fmt.Sprintf("opening query %d (limit %d) did not panic", limit+1, limit), hist)
					return
				}
			}
			idx := make([]int, n)
			switch order {
			case "FIFO":
				for i := range idx {
					idx[i] = i
				}
			case "LIFO":
				for i := range idx {
					idx[i] = n - 1 - i
				}
			default:
				lo, hi := 0, n-1
				for i := range idx {
					if i%2 == 0 {
						idx[i] = lo
						lo++
					} else {
						idx[i] = hi
						hi--
					}
				}
			}
			hist = append(hist, "close all ("+order+")")
			for k, i := range idx {
				if k%2 == 0 {
					qs[i].Close()
				} else {
					// exhaust instead of closing
					for qs[i].Next() {
					}
				}
				evals++
				if w.IsLocked() != (k < n-1) {
					viol("sweep:islocked", fmt.Sprintf("after closing %d of %d queries IsLocked() = %t", k+1, n, w.IsLocked()), hist)
					return
				}
			}
			// structural operations succeed again
			if pv := catchP(func() { e := w.NewEntity(a); w.RemoveEntity(e) }); pv != nil {
				viol("sweep:still-locked", fmt.Sprintf("structural operation panicked after all %d queries were closed: %v", n, pv), hist)
				return
			}
		}
	}
	rp.Extra["lock_sweep_"+buildName()] = map[string]interface{}{"limit": limit, "opens_and_closes": evals, "orders": orders}
	rp.Trans += evals
	rp.States += limit
	fmt.Printf("  lock sweep (%s build): limit %d, %d open/close steps, 3 close orders\n", buildName(), limit, evals)
}

func catchP(f func()) (pv interface{}) {
	defer func() { pv = recover() }()
	f()
	return nil
}

func init() {
	lockJobs := func(tier string) []runner.Job {
		return []runner.Job{
			job(scAny(&sim.LockCfg{ID: "c09-lock-q2-probes", Q: 2, Probes: 1}), pick(tier, 6, 8), 2),
			job(scAny(&sim.LockCfg{ID: "c09-lock-q2-reset", Q: 2, Resets: 1}), pick(tier, 6, 8), 2),
			job(scAny(&sim.LockCfg{ID: "c09-lock-q3", Q: 3, Probes: 0}), pick(tier, 5, 7), 2),
		}
	}
	lockJobs("quick")
	part := func(rp *runner.Report) {
		budget := runner.Budget(rp.Tier, 60, 600)
		if IsTiny() {
			budget /= 3
		}
		rp.RunJobs(lockJobs(rp.Tier), budget, func(f *wx.Failure, _ string) bool { return true })
		lockSweep(rp)
	}
	TinyParts["C09"] = part
	Checks["C09"] = func(rp *runner.Report) int {
		part(rp)
		mergeTiny(rp)
		return rp.Finish("model_checking", []string{
			"the lock state machine is explored on a fixed small world (5 entities, 4 tables, one registered filter) with up to 3 queries open at once; every structural entry point of a generated table (ID-based and generic) is called at every locked state",
			"nesting depth up to the limit is covered by linear sweeps (all n for one close order, boundary values for the others), not by the state-space search",
		}, map[string]interface{}{"method": "explicit-state BFS over open-query states of the real World + exhaustive linear sweeps over the number of simultaneously open queries, both mask-width builds"})
	}
	replayers["c09sweep"] = func(rf *runner.ReplayFile) int {
		rp := runner.NewReport("C09", "quick")
		lockSweep(rp)
		if len(rp.Violations) > 0 {
			return 1
		}
		fmt.Println("no failure")
		return 0
	}
}
