package props

import (
	"github.com/mlange-42/arche/ecs/event"
	"strings"
	"verifharness/runner"
	"verifharness/sim"
	"verifharness/wx"
)

func init() {
	wxCheck("C12", 90, 900, func(tier string) []runner.Job {
		sub := func(id string, base *sim.Cfg, restr [][]int, menu []sim.SubSpec) wx.Scenario {
			base.ID = id + "/base"
			base.Prop = "C12"
			if len(base.Filters) > 5 && base.Filters[5].Name == "All()" {
				base.BatchRefs = append(base.BatchRefs, 5) // batches spanning tables with and without relation
			}
			return scAny(&sim.SubCfg{ID: id, Base: base, Restrictions: restr, DispatchMenu: menu})
		}
		// Rel2Cfg components: A=0, R=1, R2=2
		restr2 := [][]int{nil, {0}, {1}, {2}, {0, 1}, {1, 2}}
		menu2 := []sim.SubSpec{
			{Subs: event.All, Comps: nil},
			{Subs: event.ComponentAdded, Comps: []int{0}},
			{Subs: event.EntityRemoved | event.ComponentRemoved, Comps: []int{1}},
			{Subs: event.TargetChanged, Comps: []int{2}},
			{Subs: event.RelationChanged | event.EntityCreated, Comps: nil},
			{Subs: event.Components, Comps: []int{0, 2}},
		}
		// RelCfg order 0 components: A=0, R=1
		restr1 := [][]int{nil, {0}, {1}, {0, 1}}
		menu1 := []sim.SubSpec{
			{Subs: event.All, Comps: nil},
			{Subs: event.ComponentAdded | event.ComponentRemoved, Comps: []int{0}},
			{Subs: event.Relations, Comps: []int{1}},
			{Subs: event.Entities, Comps: []int{1}},
			{Subs: event.TargetChanged, Comps: nil},
			{Subs: event.ComponentRemoved, Comps: []int{0, 1}},
		}
		return []runner.Job{
			job(sub("c12-rel2-k3-single", sim.Rel2Cfg("", 3, 0, 8, fBld|fMove|fRel|fRet|fRelX, 0), restr2, menu2), pick(tier, 3, 4), 3),
			job(sub("c12-rel-k3-batch", sim.RelCfg("", 0, 3, 0, 8, fBld|fMove|fBNew|fBRem|fBExch|fBSet|fRelX|fQ, 0), restr1, menu1), pick(tier, 3, 4), 3),
			job(sub("c12-rel2-k3-batch", sim.Rel2Cfg("", 3, 0, 8, fBld|fRel|fBExch|fBSet|fBRem|fQ, 0), restr2, menu2), pick(tier, 3, 4), 2),
			job(sub("c12-rel-k3-creation-with-values", sim.RelCfg("", 0, 3, 0, 8, fBld|fBNew|fVal|fQ, 0), restr1, menu1), pick(tier, 2, 3), 1),
			job(sub("c12-rel-r0-k3-single", sim.RelCfg("", 1, 3, 0, 8, fBld|fMove|fRel|fRelX, 0), restr1, menu1), pick(tier, 3, 4), 1),
			job(sub("c12-rich-three-targets-batch", sim.RichThreeTargetsCfg("", 1, fBSet|fBExch|fRelX|fBRem|fQ, 0), restr1, menu1), pick(tier, 1, 2), 1),
			job(sub("c12-rel-k4-1p-life", sim.RelCfg("", 0, 4, 1, 8, fBld|fMove|fRet|fBRem, 0), restr1, menu1), pick(tier, 4, 6), 1),
		}
	}, func(f *wx.Failure, _ string) bool {
		// the type bits and the content of the full stream are what the subscription rule selects on and what must arrive
		// unchanged: a wrong full stream is accepted here as well (it is C11's oracle that sees it)
		return f.Prop == "C12" || f.Prop == "" || f.Prop == "C11" && strings.HasPrefix(f.Sig, "event:")
	})
}
