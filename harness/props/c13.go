package props

import (
	"bufio"
	"bytes"
	"fmt"
	"os"
	"os/exec"
	"strings"
	"sync"
	"time"

	"github.com/mlange-42/arche/ecs"
	"github.com/mlange-42/arche/ecs/event"
	"github.com/mlange-42/arche/generic"
	"github.com/mlange-42/arche/listener"
	"verifharness/runner"
	"verifharness/sim"
	"verifharness/wx"
)

// c13SharedDump is loaded by every replay of the shared-dump scenario (three entities issued, the middle one removed;
// the slices have spare capacity, as after deserialisation into pre-allocated buffers).
var c13SharedDump = func() *ecs.EntityDump {
	w := ecs.NewWorld()
	w.NewEntity()
	e := w.NewEntity()
	w.NewEntity()
	w.RemoveEntity(e)
	d := w.DumpEntities()
	d.Entities = append(make([]ecs.Entity, 0, 512), d.Entities...)
	d.Alive = append(make([]uint32, 0, 512), d.Alive...)
	return &d
}()

func c13Scenarios(tier string) []runner.Job {
	tr := func(c *sim.Cfg, listener bool) wx.Scenario {
		c.Oracles = sim.OState | sim.OTranscript
		if listener {
			c.Listener = true
			c.Oracles |= sim.OEvents
		}
		return sc(c.P("C13"))
	}
	js := []runner.Job{
		job(tr(sim.RelCfg("c13-rel-k4-any-life", 0, 4, 0, 8, fBld|fMove|fRet|fReset, 0), false), pick(tier, 5, 7), 3),
		job(tr(sim.RelCfg("c13-rel-k4-any-batch-reg", 0, 4, 0, 8, fBld|fBRem|fBSet|fBExch|fReg|fQ|fPlain, 0), true), pick(tier, 5, 6), 3),
		job(tr(sim.Rel2Cfg("c13-rel2-k3-events", 3, 0, 1, fBld|fRel|fRet|fRelX|fBNew|fReset, 0), true), pick(tier, 5, 6), 2),
		job(tr(sim.CoreCfg("c13-core-k4-cap1", 4, 1, nil, fMove|fBNew|fBExch|fBRem|fReg|fReset, 0), true), pick(tier, 4, 6), 2),
		job(tr(sim.RelCfg("c13-rel-k5-2p-life", 0, 5, 2, 8, fBld|fMove|fRet|fBRem|fReset|fReg, 0), false), pick(tier, 6, 8), 2),
		job(tr(sim.RichRelCfg("c13-rich-two-nodes-registered", 2, true, fMove|fRet|fBRem|fBSet|fReset, 0), false), pick(tier, 4, 5), 2),
		job(tr(sim.RichRelCfg("c13-rich-two-nodes-events", 1, false, fMove|fRet|fBRem|fBExch|fReg|fQ, 0), true), pick(tier, 3, 4), 1),
		job(tr(func() *sim.Cfg {
			c := sim.RichEmptiedCfg("c13-rich-emptied-tables", 2, true, fBRem|fRet|fReset|fMove, 0)
			c.BatchRefs = []int{0, 5}
			return c
		}(), false), pick(tier, 3, 4), 1),
	}
	// batch operations over several plain nodes at once (filters All() and All(A)): adding a relation with a target creates
	// several new nodes/tables in one call, whose order must not depend on anything but the history
	js = append(js, job(tr(func() *sim.Cfg {
		c := sim.RelCfg("c13-rel-k4-batch-over-plain-nodes", 0, 4, 0, 8, fMove|fBExch|fRelX|fBSet|fBRem|fReg, 0)
		c.BatchRefs = []int{0, 5, 6}
		c.RegSpecs = []int{0, 5}
		c.Sets = append(c.Sets, []int{0}) // {A}: a second plain node
		return c
	}(), false), pick(tier, 5, 6), 2))
	// replays that all load the same dump object: loading must not tie the dump to the world
	{
		c := sim.EntCfg("c13-ent-k6-shared-dump", 6, 1, fBNew|fBRem, 0)
		c.PreloadDump = func() *ecs.EntityDump { return c13SharedDump }
		js = append(js, job(tr(c, false), pick(tier, 5, 7), 1))
	}
	for i := range js {
		js[i].CheckEveryReplay = true
	}
	return js
}

// C13Child runs one exploration and prints level digests (called in a child process).
func C13Child(id string, depth, dumpLevel int) int {
	s := Scenario(id)
	if s == nil {
		fmt.Println("unknown scenario", id)
		return 2
	}
	cfg := wx.Config{MaxDepth: depth, KeepKeys: true}
	if dumpLevel > 0 {
		cfg.DumpLevel = dumpLevel
		cfg.Dump = func(path []wx.Op, k [16]byte, hist uint64) {
			fmt.Printf("STATE %s | %x | %x\n", strings.Join(wx.PathStrings(s, path), " ; "), k[:8], hist)
		}
	}
	st := wx.Explore(s, cfg)
	for i, d := range st.LevelDigests {
		fmt.Printf("LEVEL %d %s trans=%d\n", i+1, d, st.LevelTrans[i])
	}
	fmt.Printf("TOTAL states=%d transitions=%d found=%d\n", st.States, st.Transitions, len(st.Found))
	for _, f := range st.Found {
		fmt.Printf("FOUND %s | %s | %s\n", f.Sig, f.Msg, strings.Join(wx.PathStrings(s, f.Path), " ; "))
	}
	return 0
}

type childOut struct {
	levels []string
	total  string
	states map[string]string
	found  []string
	err    error
	wall   time.Duration
}

func runChild(id string, depth, dump int, env []string) childOut {
	exe, _ := os.Executable()
	args := []string{"c13child", "-s", id, "-depth", fmt.Sprint(depth)}
	if dump > 0 {
		args = append(args, "-dump", fmt.Sprint(dump))
	}
	cmd := exec.Command(exe, args...)
	cmd.Env = append(os.Environ(), env...)
	var out bytes.Buffer
	cmd.Stdout = &out
	cmd.Stderr = &out
	t0 := time.Now()
	err := cmd.Run()
	co := childOut{err: err, states: map[string]string{}, wall: time.Since(t0)}
	sc := bufio.NewScanner(&out)
	sc.Buffer(make([]byte, 1<<20), 1<<26)
	for sc.Scan() {
		l := sc.Text()
		switch {
		case strings.HasPrefix(l, "LEVEL "):
			co.levels = append(co.levels, l)
		case strings.HasPrefix(l, "TOTAL "):
			co.total = l
		case strings.HasPrefix(l, "STATE "):
			parts := strings.SplitN(strings.TrimPrefix(l, "STATE "), " | ", 2)
			if len(parts) == 2 {
				co.states[parts[0]] = parts[1]
			}
		case strings.HasPrefix(l, "FOUND "):
			co.found = append(co.found, l)
		}
	}
	if err != nil && co.total == "" {
		co.err = fmt.Errorf("%v: %s", err, tail(out.String(), 400))
	} else {
		co.err = nil
	}
	return co
}

func tail(s string, n int) string {
	if len(s) > n {
		return s[len(s)-n:]
	}
	return s
}

func init() {
	c13Scenarios("quick")
	c13Scenarios("thorough")
	Checks["C13"] = func(rp *runner.Report) int {
		budget := runner.Budget(rp.Tier, 90, 900)
		// (1) in-process: every history is replayed many times on fresh worlds (fresh maps, hence fresh hash seeds and
		// iteration offsets) from different goroutines; state key and transcript hash must be reproduced every time.
		rp.RunJobs(c13Scenarios(rp.Tier), budget/2, func(f *wx.Failure, _ string) bool { return f.Prop == "C13" || f.Prop == "" })
		// (1b) fixed scripts over the listener and generic packages, replayed 64 times
		ns := c13Scripts(rp)
		rp.Trans += ns
		rp.Extra["script_replays"] = ns
		fmt.Printf("  scripts over listener.Dispatch and generic.Exchange/Map: %d replays\n", ns)
		// (2) cross-process: the same exploration in two processes with different GC regimes and scheduling.
		type pairRes struct {
			id    string
			depth int
			a, b  childOut
		}
		jobs := c13Scenarios(rp.Tier)
		results := make([]pairRes, len(jobs))
		var wg sync.WaitGroup
		sem := make(chan struct{}, 3)
		for i, j := range jobs {
			depth := j.MaxDepth - 1
			if depth < 3 {
				depth = 3
			}
			results[i] = pairRes{id: j.Sc.Name(), depth: depth}
			wg.Add(1)
			go func(i int) {
				defer wg.Done()
				sem <- struct{}{}
				defer func() { <-sem }()
				// the fast process first, to learn the level sizes; the slow one (forced GC) as deep as its cap allows
				results[i].b = runChild(results[i].id, results[i].depth, 0, []string{"GOGC=800", "GOMAXPROCS=4"})
				capT := 12000
				if rp.Tier == "thorough" {
					capT = 150000
				}
				d := 0
				for li, l := range results[i].b.levels {
					var lv, tr int
					var dig string
					if n, _ := fmt.Sscanf(l, "LEVEL %d %s trans=%d", &lv, &dig, &tr); n == 3 && (tr <= capT || li < 2) {
						d = lv
					}
				}
				if d < 1 {
					d = 1
				}
				results[i].b.levels = results[i].b.levels[:min(d, len(results[i].b.levels))]
				results[i].depth = d
				results[i].a = runChild(results[i].id, d, 0, []string{"VERIF_GC_EVERY_OP=1", "GOGC=25", "GOMAXPROCS=8"})
			}(i)
		}
		wg.Wait()
		cross := []map[string]interface{}{}
		for _, r := range results {
			entry := map[string]interface{}{"scenario": r.id, "depth": r.depth, "process_a": "GC forced before and after the last operation of every history, GOGC=25, 8 procs", "process_b": "GOGC=800, 4 procs",
				"wall_a_s": r.a.wall.Seconds(), "wall_b_s": r.b.wall.Seconds()}
			if r.a.err != nil || r.b.err != nil {
				entry["error"] = fmt.Sprint(r.a.err, " / ", r.b.err)
				rp.Notes = append(rp.Notes, fmt.Sprintf("cross-process run of %s could not be completed: %v / %v", r.id, r.a.err, r.b.err))
				rp.Exhaustive = false
				cross = append(cross, entry)
				continue
			}
			entry["levels"] = len(r.a.levels)
			entry["total"] = r.a.total
			same := len(r.a.levels) == len(r.b.levels) && len(r.a.levels) > 0
			first := -1
			for i := 0; same && i < len(r.a.levels); i++ {
				if r.a.levels[i] != r.b.levels[i] {
					same = false
					first = i + 1
				}
			}
			if !same && first < 0 {
				for i := 0; i < len(r.a.levels) && i < len(r.b.levels); i++ {
					if r.a.levels[i] != r.b.levels[i] {
						first = i + 1
						break
					}
				}
				if first < 0 {
					first = 1
				}
			}
			entry["identical"] = same
			cross = append(cross, entry)
			fmt.Printf("  cross-process %-30s depth=%d %s identical=%t (%.1fs / %.1fs)\n", r.id, r.depth, r.a.total, same, r.a.wall.Seconds(), r.b.wall.Seconds())
			if same {
				continue
			}
			// find the shortest diverging history
			da := runChild(r.id, first, first, []string{"VERIF_GC_EVERY_OP=1", "GOGC=25", "GOMAXPROCS=6"})
			db := runChild(r.id, first, first, []string{"GOGC=800", "GOMAXPROCS=3"})
			hist := "(could not be isolated)"
			for p, va := range da.states {
				if vb, ok := db.states[p]; !ok || vb != va {
					if hist == "(could not be isolated)" || len(p) < len(hist) {
						hist = p
					}
				}
			}
			for p := range db.states {
				if _, ok := da.states[p]; !ok && (hist == "(could not be isolated)" || len(p) < len(hist)) {
					hist = p
				}
			}
			rp.Violation(&runner.ReplayFile{Scenario: r.id, Sig: "NONDET:cross-process", Kind: "c13cross",
				Msg:     fmt.Sprintf("the same exploration in two processes (different GC regime) diverges at depth %d", first),
				OpsText: strings.Split(hist, " ; "), Extra: map[string]interface{}{"depth": first}})
		}
		return rp.Finish("model_checking", append([]string{
			"hash-map seeds and the instant of garbage collection can not be enumerated from user code: what is exhaustive is the set of histories in scope; each is executed on many fresh worlds in-process (every replay must reproduce state key and transcript) and in two processes with different GC regimes",
		}, wxAssumptions...), map[string]interface{}{"cross_process": cross,
			"method": "explicit-state BFS with replay-determinism guard on every replay + cross-process comparison of canonical per-level digests of (state key, transcript hash)"})
	}
	replayers["c13cross"] = func(rf *runner.ReplayFile) int {
		depth := 4
		if d, ok := rf.Extra["depth"].(float64); ok {
			depth = int(d)
		}
		a := runChild(rf.Scenario, depth, 0, []string{"VERIF_GC_EVERY_OP=1", "GOGC=25", "GOMAXPROCS=6"})
		b := runChild(rf.Scenario, depth, 0, []string{"GOGC=800", "GOMAXPROCS=3"})
		fmt.Println(a.levels, a.total)
		fmt.Println(b.levels, b.total)
		if fmt.Sprint(a.levels, a.total) != fmt.Sprint(b.levels, b.total) {
			fmt.Printf("VIOLATION property=%s replay=%s\n", rf.Property, "(cross-process divergence reproduced)")
			return 1
		}
		fmt.Println("no divergence")
		return 0
	}
}

// c13Scripts: determinism of the parts of the API that the world explorer does not drive - listener.Dispatch (the order in
// which sub-listeners are called) and generic.Exchange / generic.Map (the order in which components are added, which decides
// the order of archetype nodes and of AddedIDs). A fixed script is replayed on fresh worlds; every replay must produce the
// same transcript and the same canonical state.
func c13Scripts(rp *runner.Report) int {
	type g0 struct{ V int64 }
	type g1 struct{ V int32 }
	type g2 struct{ V [3]uint64 }
	type g3 struct{}
	type gr struct {
		ecs.Relation
		V int8
	}
	run := func() (string, []byte) {
		var log strings.Builder
		w := ecs.NewWorld(ecs.NewConfig().WithCapacityIncrement(2))
		mk := func(name string, subs event.Subscription, comps ...ecs.ID) *listener.Callback {
			cb := listener.NewCallback(func(w *ecs.World, e ecs.EntityEvent) {
				fmt.Fprintf(&log, "%s:%v:%06b:%v:%v|", name, e.Entity, e.EventTypes, e.AddedIDs, e.RemovedIDs)
			}, subs, comps...)
			return &cb
		}
		id0 := ecs.ComponentID[g0](&w)
		d := listener.NewDispatch(mk("a", event.All), mk("b", event.All), mk("c", event.Entities|event.Components), mk("d", event.All, id0), mk("e", event.All))
		d.AddListener(mk("f", event.All))
		w.SetListener(&d)
		ex := generic.NewExchange(&w).Adds(generic.T4[g3, g1, g2, g0]()...).Removes(generic.T2[g1, g3]()...)
		exr := generic.NewExchange(&w).Adds(generic.T3[g2, gr, g1]()...).WithRelation(generic.T[gr]())
		t := w.NewEntity()
		e1 := ex.NewEntity()
		e2 := exr.NewEntity(t)
		e3 := w.NewEntity()
		ex.Add(e3)
		ex.Remove(e1)
		generic.NewExchange(&w).Adds(generic.T2[g3, g1]()...).Removes(generic.T2[g0, g2]()...).Exchange(e1)
		m := generic.NewMap4[g2, g0, g3, g1](&w)
		e4 := m.New()
		m.Remove(e4)
		m.Add(e4)
		m.NewBatch(2)
		generic.NewExchange(&w).Adds(generic.T1[gr]()...).WithRelation(generic.T[gr]()).ExchangeBatch(ecs.All(id0), t)
		q := w.Query(ecs.All())
		for q.Next() {
			fmt.Fprintf(&log, "q:%v:%v|", q.Entity(), q.Ids())
		}
		fmt.Fprintf(&log, "%v%v%v%v", e1, e2, e3, e4)
		w.SetListener(nil)
		return log.String(), w.VerifShape(nil, 0)
	}
	ref, shape := run()
	n := 1
	for i := 0; i < 63; i++ {
		n++
		got, sh := run()
		if got != ref || string(sh) != string(shape) {
			a, b := ref, got
			k := 0
			for k < len(a) && k < len(b) && a[k] == b[k] {
				k++
			}
			lo := k - 80
			if lo < 0 {
				lo = 0
			}
			hi := func(x string) string {
				if k+120 < len(x) {
					return x[lo : k+120]
				}
				return x[lo:]
			}
			rp.Violation(&runner.ReplayFile{Scenario: "c13-scripts", Sig: "NONDET:script", Kind: "c13script",
				Msg:     fmt.Sprintf("the same script (Dispatch with six sub-listeners, generic.Exchange / Map4 with several components) on a fresh world gave a different transcript or state in replay %d: ...%s... vs ...%s...", n, hi(a), hi(b)),
				OpsText: []string{"see c13Scripts in harness/props/c13.go"}})
			return n
		}
	}
	return n
}

func init() {
	replayers["c13script"] = func(rf *runner.ReplayFile) int {
		rp := runner.NewReport("C13", "quick")
		c13Scripts(rp)
		if len(rp.Violations) > 0 {
			return 1
		}
		fmt.Println("no failure")
		return 0
	}
}
