package props

import (
	"bytes"
	"fmt"
	"os"
	"os/exec"
	"path/filepath"
	"reflect"
	"runtime"
	"sort"
	"strings"
	"sync"
	"sync/atomic"
	"time"
	"unsafe"

	"github.com/mlange-42/arche/ecs"
	"verifharness/gen14"
	"verifharness/runner"
	"verifharness/sim"
	"verifharness/wx"
)

// ============================================================================================ E1: call-site matrix

func c14CallSites(rp *runner.Report) {
	exe := filepath.Join(runner.Root, "bin", "c14cases")
	if _, err := os.Stat(exe); err != nil {
		rp.Notes = append(rp.Notes, "call-site matrix binary not available: "+err.Error())
		rp.Exhaustive = false
		return
	}
	n := len(gen14.Cases)
	results := make([]string, n)
	var wg sync.WaitGroup
	sem := make(chan struct{}, runtime.NumCPU())
	for i := 0; i < n; i++ {
		wg.Add(1)
		go func(i int) {
			defer wg.Done()
			sem <- struct{}{}
			defer func() { <-sem }()
			cmd := exec.Command(exe, fmt.Sprint(i))
			var out bytes.Buffer
			cmd.Stdout = &out
			cmd.Stderr = &out
			err := cmd.Run()
			txt := out.String()
			switch {
			case strings.Contains(txt, fmt.Sprintf("CASE %d OK", i)):
				results[i] = "OK"
			case strings.Contains(txt, fmt.Sprintf("CASE %d CORRUPT", i)):
				l := txt[strings.Index(txt, "CASE"):]
				results[i] = "CORRUPT: " + strings.SplitN(l, "\n", 2)[0]
			default:
				first := strings.SplitN(strings.TrimSpace(txt), "\n", 8)
				msg := ""
				for _, l := range first {
					if strings.Contains(l, "fatal error") || strings.Contains(l, "panic:") {
						msg = l
					}
				}
				results[i] = fmt.Sprintf("CRASH: %v %s", err, msg)
			}
		}(i)
	}
	wg.Wait()
	okN := 0
	badByPath := map[string][]string{}
	for i, r := range results {
		if r == "OK" {
			okN++
			continue
		}
		c := &gen14.Cases[i]
		badByPath[c.Path] = append(badByPath[c.Path], c.Shape+": "+r)
	}
	rp.Trans += n
	rp.States += n
	rp.Extra["call_site_matrix"] = map[string]interface{}{"cases": n, "ok": okN, "supply_paths": 11, "literal_shapes": 5}
	rp.Samples = append(rp.Samples, map[string]interface{}{"call_site_case": gen14.Cases[0].Name, "procedure": "call site in a //go:noinline function; after it returns: overwrite the stack by recursion, allocate, runtime.GC() twice, read the value through the stored component"})
	fmt.Printf("  call-site matrix: %d cases (11 supply paths x 5 literal shapes), %d ok\n", n, okN)
	paths := []string{}
	for p := range badByPath {
		paths = append(paths, p)
	}
	sort.Strings(paths)
	for _, p := range paths {
		rp.Violation(&runner.ReplayFile{Scenario: "c14-callsites", Sig: "C14:dangling:" + p, Kind: "c14case",
			Msg:     fmt.Sprintf("component supplied through %s: what it references does not survive the return of the calling function (%d literal shapes)", p, len(badByPath[p])),
			OpsText: badByPath[p]})
	}
}

// ============================================================================================ E2: histories x GC points

type gcObjRec struct {
	canary uint64
	fin    *int32
}

type gcEnt struct {
	h      ecs.Entity
	alive  bool
	hasPC  bool
	hasA   bool
	hasR   bool
	obj    *gcObjRec
	target int8
}

type gcCfg struct {
	id     string
	k      int
	rel    bool
	zfirst bool // a zero-sized component with a lower ID than the pointer component is part of every entity
	pcLast bool // the pointer component is registered after the others (its ID differs from its column position)
	pcID64 bool // ... and after 62 filler types: its ID is 64 (second mask word), ID 0 is a pointer-free type of the same size
}

func (c *gcCfg) Name() string { return c.id }

const (
	gcNewWith uint8 = 1 + iota // A: 0 = {PC}, 1 = {PC,A}, 2 = {PC,R->slot0} (rel)
	gcNewZero
	gcSet       // A=slot
	gcWritePtr  // A=slot
	gcToggleA   // A=slot
	gcRemovePC  // A=slot
	gcAddPC     // A=slot
	gcRemoveEnt // A=slot
	gcBatchA    // batch add/remove A on all PC entities
	gcRetarget  // A=slot, B=target slot (-1 zero)
	gcReset
	gcBatchRetarget // B=target slot (-1 zero): Batch.SetRelation on all {PC,R} entities
)

var gcOpNames = [...]string{"", "NewEntityWith(PC{&obj})", "NewEntity(PC)", "Set(PC{&obj})", "Get(PC).P = &obj", "Add/Remove(A)", "Remove(PC)", "Add(PC)", "RemoveEntity", "Batch.Add/Remove(All(PC), A)", "Relations.Set", "Reset", "Batch.SetRelation(All(PC,R), R)"}

func (c *gcCfg) OpKind(op wx.Op) string { return gcOpNames[op.K] }
func (c *gcCfg) OpString(op wx.Op) string {
	switch op.K {
	case gcNewWith:
		return fmt.Sprintf("NewEntityWith(%s with PC{P: &obj})", [...]string{"{PC}", "{PC,A}", "{PC,R->e0}"}[op.A])
	case gcNewZero, gcBatchA, gcReset:
		return gcOpNames[op.K]
	case gcRetarget:
		return fmt.Sprintf("Relations.Set(e%d, R, %d)", op.A, op.B)
	case gcBatchRetarget:
		return fmt.Sprintf("Batch.SetRelation(All(PC,R), R, %d)", op.B)
	}
	return fmt.Sprintf("%s on e%d", gcOpNames[op.K], op.A)
}

type gcRun struct {
	cfg       *gcCfg
	w         ecs.World
	pc, a, r  ecs.ID
	z         ecs.ID
	ents      []gcEnt
	dropped   []*gcObjRec
	nextCan   uint64
	outcome   string
	dead      bool
	batchHasA bool
}

func (c *gcCfg) New() wx.Run {
	r := &gcRun{cfg: c}
	r.w = ecs.NewWorld(ecs.NewConfig().WithCapacityIncrement(1))
	if c.zfirst {
		r.z = ecs.ComponentID[sim.CompZ](&r.w)
	}
	if !c.pcLast {
		r.pc = ecs.ComponentID[gen14.PC](&r.w)
	}
	r.a = ecs.ComponentID[sim.CompA](&r.w)
	r.r = ecs.ComponentID[sim.CompR](&r.w)
	if c.pcID64 {
		for i := 0; i < 62; i++ {
			ecs.TypeID(&r.w, mkType(i))
		}
	}
	if c.pcLast {
		r.pc = ecs.ComponentID[gen14.PC](&r.w)
	}
	r.nextCan = 0xABCD000000000000
	return r
}

//go:noinline
func (r *gcRun) newObj() (*gen14.Obj, *gcObjRec) {
	r.nextCan++
	rec := &gcObjRec{canary: r.nextCan, fin: new(int32)}
	o := &gen14.Obj{Canary: rec.canary}
	fin := rec.fin
	runtime.SetFinalizer(o, func(*gen14.Obj) { atomic.StoreInt32(fin, 1) })
	return o, rec
}

func (r *gcRun) Outcome() string { return r.outcome }

func (r *gcRun) Key(buf []byte) []byte {
	buf = r.w.VerifShape(buf, ecs.VerifIdleLockPoolAbstract)
	for i := range r.ents {
		e := &r.ents[i]
		buf = append(buf, byte(e.h.ID()), byte(e.h.Generation()))
		if e.alive {
			buf = append(buf, 1)
		}
		if e.obj != nil {
			buf = append(buf, 2)
		}
	}
	return buf
}

func (r *gcRun) Enabled() []wx.Op {
	ops := []wx.Op{}
	n := len(r.ents)
	if n < r.cfg.k {
		ops = append(ops, wx.Op{K: gcNewWith, A: 0}, wx.Op{K: gcNewWith, A: 1}, wx.Op{K: gcNewZero})
		if r.cfg.rel && n > 0 && r.ents[0].alive {
			ops = append(ops, wx.Op{K: gcNewWith, A: 2})
		}
	}
	anyPC := false
	for i := range r.ents {
		e := &r.ents[i]
		if !e.alive {
			continue
		}
		I := int8(i)
		ops = append(ops, wx.Op{K: gcRemoveEnt, A: I}, wx.Op{K: gcToggleA, A: I})
		if e.hasPC {
			anyPC = true
			ops = append(ops, wx.Op{K: gcSet, A: I}, wx.Op{K: gcWritePtr, A: I}, wx.Op{K: gcRemovePC, A: I})
		} else {
			ops = append(ops, wx.Op{K: gcAddPC, A: I})
		}
		if e.hasR {
			ops = append(ops, wx.Op{K: gcRetarget, A: I, B: -1})
			for t := range r.ents {
				if r.ents[t].alive && t != i {
					ops = append(ops, wx.Op{K: gcRetarget, A: I, B: int8(t)})
				}
			}
		}
	}
	if anyPC {
		ops = append(ops, wx.Op{K: gcBatchA})
	}
	anyRel := false
	for i := range r.ents {
		anyRel = anyRel || r.ents[i].alive && r.ents[i].hasR && r.ents[i].hasPC
	}
	if anyRel {
		ops = append(ops, wx.Op{K: gcBatchRetarget, B: -1})
		for t := range r.ents {
			if r.ents[t].alive && !r.ents[t].hasR {
				ops = append(ops, wx.Op{K: gcBatchRetarget, B: int8(t)})
			}
		}
	}
	if n > 0 {
		ops = append(ops, wx.Op{K: gcReset})
	}
	return ops
}

func (r *gcRun) fail(sig, msg string) wx.Result {
	r.dead = true
	return wx.Result{Prune: true, Fail: &wx.Failure{Prop: "C14", Sig: sig, Msg: msg}}
}

func (r *gcRun) drop(e *gcEnt) {
	if e.obj != nil {
		r.dropped = append(r.dropped, e.obj)
		e.obj = nil
	}
}

func (r *gcRun) Apply(op wx.Op) (res wx.Result) {
	if r.dead {
		return wx.Result{Prune: true}
	}
	r.outcome = "ok"
	w := &r.w
	name := r.cfg.OpString(op)
	defer func() {
		if x := recover(); x != nil {
			res = r.fail("panic:"+gcOpNames[op.K], fmt.Sprintf("%s panicked: %v", name, x))
		}
	}()
	switch op.K {
	case gcNewWith:
		o, rec := r.newObj()
		var h ecs.Entity
		extra := []ecs.Component{}
		if r.cfg.zfirst {
			extra = append(extra, ecs.Component{ID: r.z, Comp: &sim.CompZ{}})
		}
		switch op.A {
		case 0:
			h = w.NewEntityWith(append(extra, ecs.Component{ID: r.pc, Comp: &gen14.PC{P: o}})...)
			r.ents = append(r.ents, gcEnt{h: h, alive: true, hasPC: true, obj: rec})
		case 1:
			h = w.NewEntityWith(append(extra, ecs.Component{ID: r.pc, Comp: &gen14.PC{P: o}}, ecs.Component{ID: r.a, Comp: &sim.CompA{V: 1}})...)
			r.ents = append(r.ents, gcEnt{h: h, alive: true, hasPC: true, hasA: true, obj: rec})
		default:
			h = ecs.NewBuilderWith(w, ecs.Component{ID: r.pc, Comp: &gen14.PC{P: o}}, ecs.Component{ID: r.r, Comp: &sim.CompR{V: 2}}).WithRelation(r.r).New(r.ents[0].h)
			r.ents = append(r.ents, gcEnt{h: h, alive: true, hasPC: true, hasR: true, obj: rec, target: 0})
		}
	case gcNewZero:
		ids := []ecs.ID{r.pc}
		if r.cfg.zfirst {
			ids = append(ids, r.z)
		}
		h := w.NewEntity(ids...)
		r.ents = append(r.ents, gcEnt{h: h, alive: true, hasPC: true})
	case gcSet:
		e := &r.ents[op.A]
		o, rec := r.newObj()
		w.Set(e.h, r.pc, &gen14.PC{P: o})
		r.drop(e)
		e.obj = rec
	case gcWritePtr:
		e := &r.ents[op.A]
		o, rec := r.newObj()
		(*gen14.PC)(w.Get(e.h, r.pc)).P = o
		r.drop(e)
		e.obj = rec
	case gcToggleA:
		e := &r.ents[op.A]
		if e.hasA {
			w.Remove(e.h, r.a)
		} else {
			w.Add(e.h, r.a)
		}
		e.hasA = !e.hasA
	case gcRemovePC:
		e := &r.ents[op.A]
		w.Remove(e.h, r.pc)
		e.hasPC = false
		r.drop(e)
	case gcAddPC:
		e := &r.ents[op.A]
		w.Add(e.h, r.pc)
		e.hasPC = true
	case gcRemoveEnt:
		e := &r.ents[op.A]
		w.RemoveEntity(e.h)
		e.alive = false
		r.drop(e)
	case gcBatchA:
		// add A to all PC entities lacking it, or remove it from those having it
		with := false
		for i := range r.ents {
			if r.ents[i].alive && r.ents[i].hasPC && !r.ents[i].hasA {
				with = true
			}
		}
		if with {
			f := ecs.All(r.pc).Without(r.a)
			w.Batch().Add(&f, r.a)
		} else {
			w.Batch().Remove(ecs.All(r.pc, r.a), r.a)
		}
		for i := range r.ents {
			if r.ents[i].alive && r.ents[i].hasPC {
				r.ents[i].hasA = with
			}
		}
	case gcRetarget:
		e := &r.ents[op.A]
		t := ecs.Entity{}
		if op.B >= 0 {
			t = r.ents[op.B].h
		}
		w.Relations().Set(e.h, r.r, t)
	case gcBatchRetarget:
		t := ecs.Entity{}
		if op.B >= 0 {
			t = r.ents[op.B].h
		}
		w.Batch().SetRelation(ecs.All(r.pc, r.r), r.r, t)
		for i := range r.ents {
			if r.ents[i].alive && r.ents[i].hasR && r.ents[i].hasPC {
				r.ents[i].target = op.B
			}
		}
	case gcReset:
		w.Reset()
		for i := range r.ents {
			r.drop(&r.ents[i])
		}
		r.ents = r.ents[:0]
	}
	// a complete collection after every operation; then everything still referenced must be intact
	runtime.GC()
	for i := range r.ents {
		e := &r.ents[i]
		if !e.alive || !e.hasPC {
			continue
		}
		p := (*gen14.PC)(w.Get(e.h, r.pc))
		if p == nil {
			return r.fail("lost-component", fmt.Sprintf("after %s: entity %v lost its component", name, e.h))
		}
		if e.obj == nil {
			if p.P != nil {
				return r.fail("not-zero", fmt.Sprintf("after %s: freshly added component of %v is not zero", name, e.h))
			}
			continue
		}
		if atomic.LoadInt32(e.obj.fin) != 0 {
			return r.fail("freed-while-referenced", fmt.Sprintf("after %s: the object referenced by the component of %v was finalised (collected) while the component exists", name, e.h))
		}
		if p.P == nil || p.P.Canary != e.obj.canary {
			return r.fail("referent-corrupted", fmt.Sprintf("after %s: the component of %v no longer references its object intact", name, e.h))
		}
	}
	return wx.Result{}
}

var finalizerSentinels int64

// waitFinalizers runs collections until a fresh sentinel object has been finalised (so the finaliser goroutine has made progress).
func waitFinalizers() bool {
	done := new(int32)
	func() {
		s := &gen14.Obj{}
		runtime.SetFinalizer(s, func(*gen14.Obj) { atomic.StoreInt32(done, 1) })
	}()
	for i := 0; i < 200; i++ {
		runtime.GC()
		if atomic.LoadInt32(done) != 0 {
			atomic.AddInt64(&finalizerSentinels, 1)
			return true
		}
		time.Sleep(time.Millisecond)
	}
	return false
}

// Check: everything that is no longer referenced by a component must be collectable.
func (r *gcRun) Check() *wx.Failure {
	if r.dead || len(r.dropped) == 0 {
		return nil
	}
	for round := 0; round < 4; round++ {
		if !waitFinalizers() {
			return nil // finaliser goroutine stalled: nothing is asserted
		}
		rest := r.dropped[:0]
		for _, d := range r.dropped {
			if atomic.LoadInt32(d.fin) == 0 {
				rest = append(rest, d)
			}
		}
		r.dropped = rest
		if len(r.dropped) == 0 {
			return nil
		}
	}
	return &wx.Failure{Prop: "C14", Sig: "leak", Msg: fmt.Sprintf("%d object(s) whose component was removed, overwritten or reset are still kept alive by the storage after 4 complete collections (sentinel finalisers ran)", len(r.dropped))}
}

// ============================================================================================ E3: traces -> tri-colour model

type memRec struct {
	op   ecs.VerifMemOp
	site string
	word uintptr // first pointer word at src before the copy (0 if nil / no src)
	old  uintptr // first pointer word at dst before the write
}

func siteOf() string {
	pcs := make([]uintptr, 16)
	n := runtime.Callers(3, pcs)
	frames := runtime.CallersFrames(pcs[:n])
	for {
		f, more := frames.Next()
		fn := f.Function
		if strings.Contains(fn, "arche/ecs.") && !strings.Contains(fn, "verif") && !strings.HasSuffix(fn, ".copy") && !strings.HasSuffix(fn, "copyTyped") {
			return fn[strings.LastIndex(fn, "/")+1:]
		}
		if !more {
			return "?"
		}
	}
}

func typeHasPointers(tp reflect.Type) bool {
	switch tp.Kind() {
	case reflect.Ptr, reflect.Slice, reflect.String, reflect.Map, reflect.Chan, reflect.Func, reflect.Interface, reflect.UnsafePointer:
		return true
	case reflect.Array:
		return tp.Len() > 0 && typeHasPointers(tp.Elem())
	case reflect.Struct:
		for i := 0; i < tp.NumField(); i++ {
			if typeHasPointers(tp.Field(i).Type) {
				return true
			}
		}
	}
	return false
}

// c14Traces replays every history of the E2 scenario up to the given depth single-threaded with the memory hook installed,
// abstracts the memory operations on pointer-bearing columns of each operation, and returns the distinct abstract traces.
func c14Traces(depth int, pcLast bool) (shapes map[string]*gcTrace, opsTraced int) {
	cfg := &gcCfg{id: "c14-trace", k: 3, rel: true, pcLast: pcLast}
	shapes = map[string]*gcTrace{}
	var cur []memRec
	ecs.VerifSetMemHook(func(op ecs.VerifMemOp) {
		rec := memRec{op: op, site: siteOf()}
		if op.Src != nil && op.Size >= 8 {
			rec.word = *(*uintptr)(op.Src)
		}
		if op.Dst != nil && op.Size >= 8 {
			rec.old = *(*uintptr)(op.Dst)
		}
		cur = append(cur, rec)
	})
	defer ecs.VerifSetMemHook(nil)
	var rec func(prefix []wx.Op)
	rec = func(prefix []wx.Op) {
		r := cfg.New().(*gcRun)
		for _, o := range prefix[:maxInt(len(prefix)-1, 0)] {
			r.Apply(o)
		}
		if len(prefix) > 0 {
			// columns before and after the traced operation
			colsBefore := r.w.VerifColumns()
			cur = cur[:0]
			last := prefix[len(prefix)-1]
			r.Apply(last)
			colsAfter := r.w.VerifColumns()
			opsTraced++
			if t := abstractTrace(cur, append(colsBefore, colsAfter...)); t != nil {
				if _, ok := shapes[t.shape]; !ok {
					t.example = strings.Join(wx.PathStrings(cfg, prefix), "; ")
					shapes[t.shape] = t
				}
			}
			if r.dead {
				return
			}
		}
		if len(prefix) == depth {
			return
		}
		for _, o := range r.Enabled() {
			rec(append(append([]wx.Op{}, prefix...), o))
		}
	}
	rec(nil)
	return shapes, opsTraced
}

// abstractTrace maps concrete memory operations to an abstract trace over arrays A, B, .. (table columns holding
// pointers), the caller's temporary T, and referents P1..; nil if no pointer-bearing column was touched.
func abstractTrace(recs []memRec, cols []ecs.VerifColumn) *gcTrace {
	type colRange struct {
		base, end uintptr
		item      uintptr
	}
	ranges := []colRange{}
	for _, c := range cols {
		if c.Pointer == nil || c.ItemSize == 0 || !typeHasPointers(c.Type) {
			continue
		}
		b := uintptr(c.Pointer)
		ranges = append(ranges, colRange{b, b + uintptr(c.ItemSize)*uintptr(c.Cap), uintptr(c.ItemSize)})
	}
	find := func(p unsafe.Pointer) (base uintptr, slot int, ok bool) {
		a := uintptr(p)
		for _, r := range ranges {
			if a >= r.base && a < r.end {
				return r.base, int((a - r.base) / r.item), true
			}
		}
		return 0, 0, false
	}
	objName := map[uintptr]string{}
	slotName := map[string]int{}
	refName := map[uintptr]int{}
	initVals := map[string]int{}
	nextObj := 0
	locOf := func(base uintptr, slot int) string {
		if _, ok := objName[base]; !ok {
			objName[base] = string(rune('A' + nextObj))
			nextObj++
		}
		key := fmt.Sprintf("%s/%d", objName[base], slot)
		if _, ok := slotName[key]; !ok {
			n := 0
			for k := range slotName {
				if strings.HasPrefix(k, objName[base]+"/") {
					n++
				}
			}
			slotName[key] = n
		}
		return fmt.Sprintf("%s%d", objName[base], slotName[key])
	}
	ref := func(w uintptr) int {
		if w == 0 {
			return 0
		}
		if _, ok := refName[w]; !ok {
			refName[w] = len(refName) + 1
		}
		return refName[w]
	}
	acts := [][3]string{}
	sites := []string{}
	written := map[string]bool{}
	noteInit := func(loc string, w uintptr) {
		if _, ok := initVals[loc]; !ok && !written[loc] {
			initVals[loc] = ref(w)
		}
	}
	for _, m := range recs {
		db, ds, dok := find(m.op.Dst)
		if !dok {
			continue // destination is not a pointer-bearing column
		}
		// whole-array typed operations are expanded per row touched by this trace only when needed: treat as one slot
		dst := locOf(db, ds)
		switch m.op.Kind {
		case "rawzero", "typedzero":
			noteInit(dst, m.old)
			acts = append(acts, [3]string{m.op.Kind, dst, ""})
			written[dst] = true
		default:
			var src string
			if sb, ss, sok := find(m.op.Src); sok {
				src = locOf(sb, ss)
			} else {
				src = "T0"
			}
			noteInit(src, m.word)
			noteInit(dst, m.old)
			acts = append(acts, [3]string{m.op.Kind, dst, src})
			written[dst] = true
		}
		sites = append(sites, m.site)
	}
	if len(acts) == 0 {
		return nil
	}
	if len(acts) > 8 || nextObj > 4 {
		// batch operations repeat the same per-row pattern: keep the first rows
		acts = acts[:8]
		sites = sites[:8]
	}
	parts := []string{}
	for _, a := range acts {
		parts = append(parts, a[0]+"("+a[1]+"<-"+a[2]+")")
	}
	shape := strings.Join(parts, ";")
	// initial contents are part of the shape (nil / distinct referents)
	keys := []string{}
	for k := range initVals {
		keys = append(keys, k)
	}
	sort.Strings(keys)
	for _, k := range keys {
		shape += fmt.Sprintf("|%s=%d", k, initVals[k])
	}
	for l := range initVals {
		if len(l) < 2 || l[1] > '9' {
			return nil
		}
	}
	t := newGcTrace(shape, acts, initVals)
	uniq := []string{}
	for _, s := range sites {
		dup := false
		for _, u := range uniq {
			dup = dup || u == s
		}
		if !dup {
			uniq = append(uniq, s)
		}
	}
	t.site = strings.Join(uniq, ",")
	return t
}

// c14KindTraces runs a fixed script of storage operations for components of every pointer-bearing shape with the memory
// hook installed and adds the abstract traces to shapes.
func c14KindTraces(rp *runner.Report, shapes map[string]*gcTrace) (traced int, kinds []string) {
	type kind struct {
		name string
		tp   reflect.Type
		mk   func(i int) interface{}
	}
	o := func(i int) *gen14.Obj { return &gen14.Obj{Canary: uint64(i)} }
	ks := []kind{
		{"pointer", reflect.TypeOf(gen14.PC{}), func(i int) interface{} { return &gen14.PC{P: o(i)} }},
		{"slice", reflect.TypeOf(gen14.SC{}), func(i int) interface{} { return &gen14.SC{S: []uint64{uint64(i)}} }},
		{"string", reflect.TypeOf(gen14.StrC{}), func(i int) interface{} { return &gen14.StrC{S: fmt.Sprint("s", i)} }},
		{"map", reflect.TypeOf(gen14.MC{}), func(i int) interface{} { return &gen14.MC{M: map[int]uint64{i: 1}} }},
		{"interface", reflect.TypeOf(gen14.IfaceC{}), func(i int) interface{} { return &gen14.IfaceC{ID: i + 1, Value: o(i)} }},
		{"chan", reflect.TypeOf(gen14.ChanC{}), func(i int) interface{} { return &gen14.ChanC{C: make(chan int)} }},
		{"func", reflect.TypeOf(gen14.FuncC{}), func(i int) interface{} { x := o(i); return &gen14.FuncC{F: func() { _ = x }} }},
		{"array-of-pointers", reflect.TypeOf(gen14.ArrC{}), func(i int) interface{} { return &gen14.ArrC{A: [2]*gen14.Obj{o(i), o(i + 1)}} }},
		{"nested-struct", reflect.TypeOf(gen14.NestC{}), func(i int) interface{} {
			c := &gen14.NestC{N: int32(i + 1)}
			c.In.P = o(i)
			return c
		}},
		{"unsafe.Pointer", reflect.TypeOf(gen14.UPC{}), func(i int) interface{} { return &gen14.UPC{U: unsafe.Pointer(o(i))} }},
		// component types that are not structs
		{"bare-pointer", reflect.TypeOf(barePtr(nil)), func(i int) interface{} { v := barePtr(o(i)); return &v }},
		{"bare-slice", reflect.TypeOf(bareSlice(nil)), func(i int) interface{} { v := bareSlice{uint64(i), uint64(i + 1)}; return &v }},
		{"bare-string", reflect.TypeOf(bareString("")), func(i int) interface{} { v := bareString(fmt.Sprint("str", i)); return &v }},
		{"bare-map", reflect.TypeOf(bareMap(nil)), func(i int) interface{} { v := bareMap{i: 7}; return &v }},
		{"bare-interface", reflect.TypeOf((*bareIface)(nil)).Elem(), func(i int) interface{} { var v bareIface = o(i); return &v }},
		{"bare-chan", reflect.TypeOf(bareChan(nil)), func(i int) interface{} { v := bareChan(make(chan int)); return &v }},
		{"bare-func", reflect.TypeOf(bareFunc(nil)), func(i int) interface{} { x := o(i); v := bareFunc(func() { _ = x }); return &v }},
		{"bare-array", reflect.TypeOf(bareArr{}), func(i int) interface{} { v := bareArr{o(i), nil, o(i + 1)}; return &v }},
	}
	var cur []memRec
	ecs.VerifSetMemHook(func(op ecs.VerifMemOp) {
		rec := memRec{op: op, site: siteOf()}
		if op.Src != nil && op.Size >= 8 {
			rec.word = *(*uintptr)(op.Src)
		}
		if op.Dst != nil && op.Size >= 8 {
			rec.old = *(*uintptr)(op.Dst)
		}
		cur = append(cur, rec)
	})
	defer ecs.VerifSetMemHook(nil)
	for _, k := range ks {
		kinds = append(kinds, k.name)
		w := ecs.NewWorld(ecs.NewConfig().WithCapacityIncrement(1))
		// the pointer-bearing component is registered last: its ID (2) differs from its column position in most tables
		a := ecs.ComponentID[sim.CompA](&w)
		rid := ecs.ComponentID[sim.CompR](&w)
		id := ecs.TypeID(&w, k.tp)
		var e1, e2, e3 ecs.Entity
		// content oracle: what every entity's component must read (the value that was supplied last)
		expected := map[ecs.Entity]string{}
		put := func(e ecs.Entity, v interface{}) ecs.Entity {
			expected[e] = c14Show(k.tp, reflect.ValueOf(v).UnsafePointer())
			return e
		}
		comp := func(i int) (ecs.Component, interface{}) { v := k.mk(i); return ecs.Component{ID: id, Comp: v}, v }
		steps := []struct {
			name string
			run  func()
		}{
			{"NewEntityWith", func() { c, v := comp(1); e1 = put(w.NewEntityWith(c), v) }},
			{"NewEntityWith (growth)", func() { c, v := comp(2); e2 = put(w.NewEntityWith(c), v) }},
			{"Builder.New with relation", func() {
				c, v := comp(3)
				e3 = put(ecs.NewBuilderWith(&w, c, ecs.Component{ID: rid, Comp: &sim.CompR{}}).WithRelation(rid).New(e2), v)
			}},
			{"Add (move to another table, swap-remove)", func() { w.Add(e1, a) }},
			{"Set", func() { v := k.mk(4); w.Set(e1, id, v); put(e1, v) }},
			{"Assign", func() { e := w.NewEntity(); c, v := comp(5); w.Assign(e, c); put(e, v) }},
			{"Relations.Set (move between target tables)", func() { w.Relations().Set(e3, rid, e1) }},
			{"Batch.Add (batch move)", func() { f := ecs.All(id).Without(a); w.Batch().Add(&f, a) }},
			{"Exchange (add and remove, move back)", func() { w.Exchange(e3, nil, []ecs.ID{a}) }},
			{"Remove component", func() { w.Remove(e1, id) }},
			{"RemoveEntity (swap-remove of the first row)", func() { w.RemoveEntity(e2) }},
			{"NewEntityWith (reuse of a freed row)", func() { c, v := comp(7); put(w.NewEntityWith(c), v) }},
			{"Batch.RemoveEntities", func() { f := ecs.All(id).Without(rid); w.Batch().RemoveEntities(&f) }},
			{"Reset", func() { c, v := comp(6); put(w.NewEntityWith(c), v); w.Reset(); clear(expected) }},
			{"NewEntityWith after Reset", func() { c, v := comp(8); put(w.NewEntityWith(c), v) }},
		}
		bad := func(step, msg string) {
			rp.Violation(&runner.ReplayFile{Scenario: "c14-kinds", Sig: "C14:content:" + k.name, Kind: "c14model",
				Msg:     fmt.Sprintf("component type %v (%s): after %s %s", k.tp, k.name, step, msg),
				OpsText: []string{"script of c14KindTraces up to: " + step}})
		}
		for _, st := range steps {
			before := w.VerifColumns()
			cur = cur[:0]
			st.run()
			traced++
			for e, want := range expected {
				if !w.Alive(e) || !w.Has(e, id) {
					delete(expected, e)
					continue
				}
				if got := c14Show(k.tp, w.Get(e, id)); got != want {
					bad(st.name, fmt.Sprintf("the component of entity %v reads %s, the value supplied last was %s", e, got, want))
				}
			}
			if err := w.VerifCheckInvariants(); err != nil {
				bad(st.name, "the storage is inconsistent: "+err.Error())
			}
			if t := abstractTrace(cur, append(before, w.VerifColumns()...)); t != nil {
				key := t.shape
				if _, ok := shapes[key]; !ok {
					t.example = fmt.Sprintf("component holding a %s: %s", k.name, st.name)
					shapes[key] = t
				} else if !strings.Contains(shapes[key].example, k.name) && len(shapes[key].example) < 300 {
					shapes[key].example += "; also " + k.name + ": " + st.name
				}
			}
		}
	}
	return traced, kinds
}

// component types that are not structs
type (
	barePtr    *gen14.Obj
	bareSlice  []uint64
	bareString string
	bareMap    map[int]uint64
	bareIface  interface{}
	bareChan   chan int
	bareFunc   func()
	bareArr    [3]*gen14.Obj
)

// c14Show renders a component value including the identity of everything it references.
func c14Show(tp reflect.Type, p unsafe.Pointer) string {
	if p == nil {
		return "<nil pointer>"
	}
	var show func(v reflect.Value) string
	show = func(v reflect.Value) string {
		switch v.Kind() {
		case reflect.Pointer, reflect.UnsafePointer, reflect.Chan, reflect.Func:
			return fmt.Sprintf("%s@%x", v.Kind(), v.Pointer())
		case reflect.Map:
			return fmt.Sprintf("map@%x(len %d)", v.Pointer(), v.Len())
		case reflect.Slice:
			s := fmt.Sprintf("slice@%x(len %d cap %d)[", v.Pointer(), v.Len(), v.Cap())
			for i := 0; i < v.Len() && i < 8; i++ {
				s += show(v.Index(i)) + " "
			}
			return s + "]"
		case reflect.String:
			return fmt.Sprintf("string(len %d)%q", v.Len(), v.String())
		case reflect.Interface:
			if v.IsNil() {
				return "iface(nil)"
			}
			return "iface(" + v.Elem().Type().String() + ":" + show(v.Elem()) + ")"
		case reflect.Struct:
			s := "{"
			for i := 0; i < v.NumField(); i++ {
				s += show(v.Field(i)) + " "
			}
			return s + "}"
		case reflect.Array:
			s := "["
			for i := 0; i < v.Len(); i++ {
				s += show(v.Index(i)) + " "
			}
			return s + "]"
		default:
			return fmt.Sprint(v)
		}
	}
	return show(reflect.NewAt(tp, p).Elem())
}

func c14Model(rp *runner.Report) {
	depth := pick(rp.Tier, 3, 4)
	shapes, traced := c14Traces(depth, false)
	shapesLast, tracedLast := c14Traces(depth, true)
	for k, v := range shapesLast {
		if _, ok := shapes[k]; !ok {
			v.example = "(pointer component registered last) " + v.example
			shapes[k] = v
		}
	}
	traced += tracedLast
	t2, kinds := c14KindTraces(rp, shapes)
	traced += t2
	rp.Extra["pointer_kinds_traced"] = kinds
	names := []string{}
	for s := range shapes {
		names = append(names, s)
	}
	sort.Strings(names)
	totalStates := 0
	unsafeBySite := map[string][]string{}
	detail := []map[string]interface{}{}
	for _, n := range names {
		t := shapes[n]
		v := t.explore()
		totalStates += v.states
		d := map[string]interface{}{"trace": t.String(), "initial": n[strings.Index(n+"|", "|"):], "site": t.site, "example_history": t.example, "model_states": v.states, "safe": v.safe}
		if !v.safe {
			d["schedule"] = v.schedule
			raw := false
			for _, a := range t.acts {
				raw = raw || strings.HasPrefix(a.kind, "raw")
			}
			key := t.site
			unsafeBySite[key] = append(unsafeBySite[key], fmt.Sprintf("trace %s (history: %s): %s", t.String(), t.example, strings.Join(v.schedule, " | ")))
		}
		detail = append(detail, d)
	}
	rp.States += totalStates
	rp.Trans += traced
	rp.Extra["gc_model"] = map[string]interface{}{"operations_traced_on_the_real_implementation": traced, "distinct_abstract_traces": len(names), "model_states_explored": totalStates, "traces": detail}
	fmt.Printf("  tri-colour model: %d operations traced on the implementation, %d distinct abstract traces, %d model states\n", traced, len(names), totalStates)
	sites := []string{}
	for s := range unsafeBySite {
		sites = append(sites, s)
	}
	sort.Strings(sites)
	for _, s := range sites {
		rp.Violation(&runner.ReplayFile{Scenario: "c14-gc-model", Sig: "C14:gc-unsafe:site=" + s, Kind: "c14model",
			Msg:     fmt.Sprintf("pointer-bearing component storage is moved without write barrier at %s: with concurrent marking there is a schedule after which the component references a freed object", s),
			OpsText: unsafeBySite[s]})
	}
	// self-test of the model on the reference traces (raw move unsafe, typed move safe)
	rawMove := newGcTrace("selftest-raw", [][3]string{{"rawcopy", "B0", "A0"}, {"rawzero", "A0", ""}}, map[string]int{"A0": 1, "B0": 0})
	typedMove := newGcTrace("selftest-typed", [][3]string{{"typedcopy", "B0", "A0"}, {"typedzero", "A0", ""}}, map[string]int{"A0": 1, "B0": 0})
	if rawMove.explore().safe || !typedMove.explore().safe {
		rp.Notes = append(rp.Notes, "model self-test failed: the tri-colour model does not separate raw from typed moves")
		rp.Exhaustive = false
	}
}

// ============================================================================================ the check

func init() {
	gcJobs := func(tier string) []runner.Job {
		return []runner.Job{
			job(scAny(&gcCfg{id: "c14-gc-k2", k: 2, rel: true}), pick(tier, 6, 9), 2),
			job(scAny(&gcCfg{id: "c14-gc-k3", k: 3, rel: false}), pick(tier, 5, 7), 1),
			job(scAny(&gcCfg{id: "c14-gc-k3-rel", k: 3, rel: true}), pick(tier, 5, 7), 1),
			// one worker: nothing else in the process supplies component values, so whatever the library itself
			// remembers of the last supplied value (package-level scratch) stays visible to the leak oracle
			func() runner.Job {
				j := job(scAny(&gcCfg{id: "c14-gc-k2-single-worker", k: 2, rel: false}), pick(tier, 4, 5), 1)
				j.Workers = 1
				return j
			}(),
			job(scAny(&gcCfg{id: "c14-gc-k2-zero-sized-first", k: 2, rel: false, zfirst: true}), pick(tier, 5, 7), 1),
			job(scAny(&gcCfg{id: "c14-gc-k2-pointer-registered-last", k: 2, rel: true, pcLast: true}), pick(tier, 5, 7), 1),
			job(scAny(&gcCfg{id: "c14-gc-k2-pointer-component-id-64", k: 2, rel: false, pcLast: true, pcID64: true}), pick(tier, 4, 6), 1),
		}
	}
	gcJobs("quick")
	Checks["C14"] = func(rp *runner.Report) int {
		c14CallSites(rp)
		rp.RunJobs(gcJobs(rp.Tier), runner.Budget(rp.Tier, 60, 600), func(f *wx.Failure, _ string) bool { return true })
		rp.Extra["sentinel_finalizers_observed"] = atomic.LoadInt64(&finalizerSentinels)
		c14Model(rp)
		return rp.Finish("model_checking", []string{
			"the instant at which concurrent marking overlaps an operation can not be controlled from user code: that dimension is decided on a tri-colour model of the collector (explored exhaustively) fed with memory traces recorded from the real implementation; the write-barrier semantics of the Go runtime are the trusted base of the model",
			"histories x stop-the-world collections and the call-site matrix run on the real runtime; finalisation of dropped objects is awaited with sentinel finalisers (a stalled finaliser goroutine asserts nothing)",
			"component shapes: a struct holding one pointer for histories and traces; pointer, slice, string and map for the call-site matrix",
		}, map[string]interface{}{"method": "call-site matrix (11 supply paths x 5 literal shapes, one process each) + explicit-state BFS over histories with a full collection after every operation + exhaustive exploration of a tri-colour collector model against memory traces recorded from the implementation"})
	}
	for _, k := range []string{"c14case", "c14model"} {
		replayers[k] = func(rf *runner.ReplayFile) int {
			rp := runner.NewReport("C14", "quick")
			c14CallSites(rp)
			c14Model(rp)
			if len(rp.Violations) > 0 {
				return 1
			}
			fmt.Println("no failure")
			return 0
		}
	}
}
