package props

import (
	"fmt"
	"strings"
)

// ---------------------------------------------------------------------------------------------------------
// A tri-colour model of Go's concurrent mark phase, explored exhaustively against an abstract memory trace
// recorded from the real implementation (see c14.go). It answers: is there an interleaving of collector steps
// with this trace after which a slot of a reachable object points to a freed object?
//
// Objects: arrays (table columns; always reachable from the world), optionally the caller's temporary value T
// (reachable from the mutator's stack until the operation returns) and referents P1..Pn (reachable only through slots).
// Collector: START (everything white, arrays grey), SCANSTACK (once; shades T while it is rooted), SCANSLOT(o,i) for a
// grey object (shades what the slot points to; the object turns black when all its slots are scanned), FINISH (no grey
// object, stack scanned: white referents are freed). Mutator: the trace, in order. Raw copies and raw zeroing have no write
// barrier. Typed copies and typed zeroing execute Go's hybrid barrier while marking: shade the overwritten pointer;
// shade the written pointer if the stack has not been scanned yet.
// ---------------------------------------------------------------------------------------------------------

type gcLoc struct {
	obj  int // index into objects (arrays first, then T)
	slot int
}

type gcAct struct {
	kind string // rawcopy, rawzero, typedcopy, typedzero, droproot
	dst  gcLoc
	src  gcLoc
}

type gcTrace struct {
	arrays  int     // number of array objects
	slots   []int   // slots per object (arrays..., T)
	hasT    bool    // last object is T
	init    [][]int // initial slot contents: referent index+1, 0 = nil
	refs    int     // number of referents
	acts    []gcAct
	shape   string
	example string
	site    string
}

const (
	white = 0
	grey  = 1
	black = 2
)

type gcState struct {
	pc      int
	phase   int // 0 idle (before a cycle), 1 marking, 2 cycle done
	color   []int8
	scanned [][]bool
	val     [][]int
	refCol  []int8 // referent colours
	freed   []bool
	stack   bool // stack scanned
	rooted  bool // T still referenced from the stack
}

func (s *gcState) clone() *gcState {
	c := &gcState{pc: s.pc, phase: s.phase, stack: s.stack, rooted: s.rooted}
	c.color = append([]int8{}, s.color...)
	c.refCol = append([]int8{}, s.refCol...)
	c.freed = append([]bool{}, s.freed...)
	for i := range s.val {
		c.val = append(c.val, append([]int{}, s.val[i]...))
		c.scanned = append(c.scanned, append([]bool{}, s.scanned[i]...))
	}
	return c
}

func (s *gcState) key() string {
	return fmt.Sprint(s.pc, s.phase, s.color, s.scanned, s.val, s.refCol, s.freed, s.stack, s.rooted)
}

type gcVerdict struct {
	safe     bool
	states   int
	schedule []string // counterexample
}

func (t *gcTrace) reachable(s *gcState, obj int) bool {
	if obj < t.arrays {
		return true
	}
	return s.rooted
}

func (t *gcTrace) violated(s *gcState) string {
	for o := range s.val {
		if !t.reachable(s, o) {
			continue
		}
		for i, v := range s.val[o] {
			if v > 0 && s.freed[v-1] {
				return fmt.Sprintf("slot %d of %s points to freed referent P%d", i, t.objName(o), v)
			}
		}
	}
	return ""
}

func (t *gcTrace) objName(o int) string {
	if t.hasT && o == len(t.slots)-1 {
		return "T"
	}
	return string(rune('A' + o))
}

func (t *gcTrace) locName(l gcLoc) string { return fmt.Sprintf("%s[%d]", t.objName(l.obj), l.slot) }

func (s *gcState) shade(ref int) {
	if ref > 0 && s.refCol[ref-1] == white {
		s.refCol[ref-1] = black // referents have no outgoing pointers: grey == black
	}
}

// explore searches all interleavings; returns the verdict.
func (t *gcTrace) explore() gcVerdict {
	s0 := &gcState{rooted: t.hasT}
	for o := range t.slots {
		s0.color = append(s0.color, white)
		s0.scanned = append(s0.scanned, make([]bool, t.slots[o]))
		s0.val = append(s0.val, append([]int{}, t.init[o]...))
	}
	s0.refCol = make([]int8, t.refs)
	s0.freed = make([]bool, t.refs)
	seen := map[string]bool{}
	var bad []string
	var dfs func(s *gcState, path []string) bool
	dfs = func(s *gcState, path []string) bool {
		k := s.key()
		if seen[k] {
			return false
		}
		seen[k] = true
		if v := t.violated(s); v != "" {
			bad = append(append([]string{}, path...), "=> "+v)
			return true
		}
		try := func(n *gcState, label string) bool {
			return dfs(n, append(path, label))
		}
		// ---- mutator step
		if s.pc < len(t.acts) {
			a := t.acts[s.pc]
			n := s.clone()
			n.pc++
			label := ""
			switch a.kind {
			case "rawcopy":
				n.val[a.dst.obj][a.dst.slot] = s.val[a.src.obj][a.src.slot]
				label = fmt.Sprintf("mutator: raw copy %s <- %s", t.locName(a.dst), t.locName(a.src))
			case "rawzero":
				n.val[a.dst.obj][a.dst.slot] = 0
				label = fmt.Sprintf("mutator: raw zero %s", t.locName(a.dst))
			case "typedcopy":
				nv := s.val[a.src.obj][a.src.slot]
				if s.phase == 1 {
					n.shade(s.val[a.dst.obj][a.dst.slot])
					if !s.stack {
						n.shade(nv)
					}
				}
				n.val[a.dst.obj][a.dst.slot] = nv
				label = fmt.Sprintf("mutator: typed copy %s <- %s (write barrier)", t.locName(a.dst), t.locName(a.src))
			case "typedzero":
				if s.phase == 1 {
					n.shade(s.val[a.dst.obj][a.dst.slot])
				}
				n.val[a.dst.obj][a.dst.slot] = 0
				label = fmt.Sprintf("mutator: typed zero %s (write barrier)", t.locName(a.dst))
			case "droproot":
				n.rooted = false
				label = "mutator: the operation returns, T is dead"
			}
			if try(n, label) {
				return true
			}
		}
		// ---- collector steps
		switch s.phase {
		case 0:
			n := s.clone()
			n.phase = 1
			for o := 0; o < t.arrays; o++ {
				n.color[o] = grey
			}
			if try(n, "collector: START marking (arrays grey, everything else white)") {
				return true
			}
		case 1:
			if !s.stack {
				n := s.clone()
				n.stack = true
				if t.hasT && s.rooted {
					to := len(t.slots) - 1
					if n.color[to] == white {
						n.color[to] = grey
					}
				}
				if try(n, "collector: scan the mutator's stack") {
					return true
				}
			}
			anyGrey := false
			for o := range s.color {
				if s.color[o] != grey {
					continue
				}
				anyGrey = true
				for i := range s.scanned[o] {
					if s.scanned[o][i] {
						continue
					}
					n := s.clone()
					n.scanned[o][i] = true
					n.shade(s.val[o][i])
					all := true
					for _, b := range n.scanned[o] {
						all = all && b
					}
					if all {
						n.color[o] = black
					}
					if try(n, fmt.Sprintf("collector: scan %s[%d]", t.objName(o), i)) {
						return true
					}
				}
			}
			if !anyGrey && s.stack {
				n := s.clone()
				n.phase = 2
				for r := range n.refCol {
					if n.refCol[r] == white {
						n.freed[r] = true
					}
				}
				if try(n, "collector: FINISH (free white objects)") {
					return true
				}
			}
		}
		return false
	}
	found := dfs(s0, nil)
	return gcVerdict{safe: !found, states: len(seen), schedule: bad}
}

// newGcTrace builds a trace from abstract actions. locs are given as "A0", "B1", "T0".
func newGcTrace(shape string, acts [][3]string, initVals map[string]int) *gcTrace {
	t := &gcTrace{shape: shape}
	objIdx := map[string]int{}
	maxSlot := map[string]int{}
	names := []string{}
	note := func(l string) {
		if l == "" {
			return
		}
		o, sl := l[:1], int(l[1]-'0')
		if _, ok := objIdx[o]; !ok {
			objIdx[o] = -1
			names = append(names, o)
		}
		if sl+1 > maxSlot[o] {
			maxSlot[o] = sl + 1
		}
	}
	for _, a := range acts {
		note(a[1])
		note(a[2])
	}
	// arrays first (sorted by appearance), T last
	ordered := []string{}
	for _, n := range names {
		if n != "T" {
			ordered = append(ordered, n)
		}
	}
	t.arrays = len(ordered)
	if _, ok := objIdx["T"]; ok {
		ordered = append(ordered, "T")
		t.hasT = true
	}
	for i, n := range ordered {
		objIdx[n] = i
		t.slots = append(t.slots, maxSlot[n])
		t.init = append(t.init, make([]int, maxSlot[n]))
	}
	loc := func(l string) gcLoc {
		if l == "" {
			return gcLoc{}
		}
		return gcLoc{objIdx[l[:1]], int(l[1] - '0')}
	}
	for l, v := range initVals {
		x := loc(l)
		t.init[x.obj][x.slot] = v
		if v > t.refs {
			t.refs = v
		}
	}
	for _, a := range acts {
		t.acts = append(t.acts, gcAct{kind: a[0], dst: loc(a[1]), src: loc(a[2])})
	}
	if t.hasT {
		t.acts = append(t.acts, gcAct{kind: "droproot"})
	}
	return t
}

func (t *gcTrace) String() string {
	s := []string{}
	for _, a := range t.acts {
		switch a.kind {
		case "droproot":
			s = append(s, "return")
		case "rawzero", "typedzero":
			s = append(s, fmt.Sprintf("%s(%s)", a.kind, t.locName(a.dst)))
		default:
			s = append(s, fmt.Sprintf("%s(%s<-%s)", a.kind, t.locName(a.dst), t.locName(a.src)))
		}
	}
	return strings.Join(s, "; ")
}
