package props

import (
	"fmt"
	"reflect"
	"runtime"
	"sync"
	"sync/atomic"
	"unsafe"

	"github.com/mlange-42/arche/ecs"
	"verifharness/runner"
	"verifharness/sim"
)

type relFirst struct {
	ecs.Relation
	V int32
}
type relOnly struct{ ecs.Relation }
type relSecond struct {
	V int32
	ecs.Relation
}
type relPtr struct {
	*ecs.Relation
	V int8
}
type relNested struct {
	Inner struct{ ecs.Relation }
}
type relNonStruct int64
type relArray [2]ecs.Relation

var byteType = reflect.TypeOf(uint8(0))

// manufactured component type number k (distinct for distinct k): [k+1]uint8
func mkType(k int) reflect.Type { return reflect.ArrayOf(k+1, byteType) }

func c16Violation(rp *runner.Report, sig, msg string, hist []string) {
	rp.Violation(&runner.ReplayFile{Scenario: "c16-" + buildName(), Sig: sig, Msg: msg, OpsText: hist, Kind: "c16", Extra: map[string]interface{}{"build": buildName()}})
}

// bijection part: registration of 0..limit types with re-lookups, relation shapes, limit+1.
func c16Bijection(rp *runner.Report) int {
	limit := ecs.MaskTotalBits
	evals := 0
	shapes := []struct {
		tp  reflect.Type
		rel bool
		nm  string
	}{
		{reflect.TypeOf(relFirst{}), true, "struct{ecs.Relation; V}"},
		{reflect.TypeOf(relOnly{}), true, "struct{ecs.Relation}"},
		{reflect.TypeOf(relSecond{}), false, "struct{V; ecs.Relation}"},
		{reflect.TypeOf(relPtr{}), false, "struct{*ecs.Relation; V}"},
		{reflect.TypeOf(relNested{}), false, "struct{Inner struct{ecs.Relation}}"},
		{reflect.TypeOf(relNonStruct(0)), false, "int64"},
		{reflect.TypeOf(relArray{}), false, "[2]ecs.Relation"},
		{reflect.TypeOf(struct{}{}), false, "struct{}"},
	}
	for _, resources := range []bool{false, true} {
		w := ecs.NewWorld()
		kind := "component"
		if resources {
			kind = "resource"
		}
		types := []reflect.Type{}
		regID := func(tp reflect.Type) uint8 {
			if resources {
				id := ecs.ResourceTypeID(&w, tp)
				return *(*uint8)(unsafe.Pointer(&id))
			}
			return sim.IDNum(ecs.TypeID(&w, tp))
		}
		count := func() int {
			if resources {
				return len(ecs.ResourceIDs(&w))
			}
			return len(ecs.ComponentIDs(&w))
		}
		for n := 0; n < limit; n++ {
			var tp reflect.Type
			if n < len(shapes) {
				tp = shapes[n].tp
			} else {
				tp = mkType(n)
			}
			hist := []string{fmt.Sprintf("register %d %s types, then type %v", n, kind, tp)}
			id := regID(tp)
			evals++
			if int(id) != n {
				c16Violation(rp, "registry:not-dense:"+kind, fmt.Sprintf("%s type number %d got ID %d", kind, n, id), hist)
				return evals
			}
			types = append(types, tp)
			if count() != n+1 {
				c16Violation(rp, "registry:ids-list:"+kind, fmt.Sprintf("%d types registered but %d IDs listed", n+1, count()), hist)
				return evals
			}
			// re-lookup of every earlier type; reported info consistent
			for k, t := range types {
				evals++
				if got := regID(t); int(got) != k {
					c16Violation(rp, "registry:unstable:"+kind, fmt.Sprintf("type %v registered as %d is now reported as %d (after %d registrations)", t, k, got, n+1), hist)
					return evals
				}
				if resources {
					var rid ecs.ResID
					*(*uint8)(unsafe.Pointer(&rid)) = uint8(k)
					if rt, ok := ecs.ResourceType(&w, rid); !ok || rt != t {
						c16Violation(rp, "registry:info:"+kind, fmt.Sprintf("ResourceType(%d) = %v, %t; expected %v", k, rt, ok, t), hist)
						return evals
					}
				} else {
					info, ok := ecs.ComponentInfo(&w, sim.IDOf(uint8(k)))
					wantRel := k < len(shapes) && shapes[k].rel
					if !ok || info.Type != t || info.IsRelation != wantRel {
						nm := t.String()
						if k < len(shapes) {
							nm = shapes[k].nm
						}
						c16Violation(rp, "registry:info:"+kind, fmt.Sprintf("ComponentInfo(%d) = {%v relation=%t} ok=%t; expected type %s relation=%t", k, info.Type, info.IsRelation, ok, nm, wantRel), hist)
						return evals
					}
				}
			}
			if count() != n+1 {
				c16Violation(rp, "registry:lookup-registers:"+kind, "a re-lookup registered a new ID", hist)
				return evals
			}
			// IDs that are not assigned yet are reported as such
			for _, k := range []int{n + 1, n + 2, limit - 1} {
				if k <= n || k >= limit {
					continue
				}
				evals++
				if resources {
					var rid ecs.ResID
					*(*uint8)(unsafe.Pointer(&rid)) = uint8(k)
					if rt, ok := ecs.ResourceType(&w, rid); ok {
						c16Violation(rp, "registry:unassigned:"+kind, fmt.Sprintf("ResourceType(%d) reports %v although only %d types are registered", k, rt, n+1), hist)
						return evals
					}
				} else if info, ok := ecs.ComponentInfo(&w, sim.IDOf(uint8(k))); ok {
					c16Violation(rp, "registry:unassigned:"+kind, fmt.Sprintf("ComponentInfo(%d) reports %v although only %d types are registered", k, info.Type, n+1), hist)
					return evals
				}
			}
		}
		// unassigned IDs are reported as such (none left here); one more registration must panic and change nothing
		hist := []string{fmt.Sprintf("register %d %s types, then one more", limit, kind)}
		if pv := catchP(func() { regID(mkType(limit + 5)) }); pv == nil {
			c16Violation(rp, "registry:no-limit:"+kind, fmt.Sprintf("registering %s type number %d did not panic", kind, limit+1), hist)
			return evals
		}
		evals++
		if count() != limit {
			c16Violation(rp, "registry:limit-changed:"+kind, "a rejected registration changed the registry", hist)
			return evals
		}
		for k, t := range types {
			if got := regID(t); int(got) != k {
				c16Violation(rp, "registry:limit-unstable:"+kind, fmt.Sprintf("after a rejected registration type %d is reported as %d", k, got), hist)
				return evals
			}
		}
		// IDs are stable across World.Reset, whatever the order of later look-ups
		w.Reset()
		if count() != limit {
			c16Violation(rp, "registry:reset-count:"+kind, fmt.Sprintf("after Reset %d %s IDs are listed, expected %d", count(), kind, limit), []string{"register all types; World.Reset"})
			return evals
		}
		for k := len(types) - 1; k >= 0; k -= 7 {
			evals++
			if got := regID(types[k]); int(got) != k {
				c16Violation(rp, "registry:reset-unstable:"+kind, fmt.Sprintf("after Reset %s type number %d is reported as ID %d", kind, k, got), []string{"register all types; World.Reset; look the types up in reverse order"})
				return evals
			}
		}
	}
	// a registration rejected in a locked world leaves the registry unchanged (also when the rejected type is a relation)
	{
		w := ecs.NewWorld()
		ecs.TypeID(&w, mkType(3))
		q := w.Query(ecs.All())
		pv := catchP(func() { ecs.TypeID(&w, reflect.TypeOf(relFirst{})) })
		q.Close()
		hist := []string{"register [4]uint8; open a query; register struct{ecs.Relation; V} (rejected); close the query; register [6]uint8"}
		if pv == nil {
			c16Violation(rp, "registry:locked-no-panic", "registering a new component type in a locked world did not panic", hist)
			return evals
		}
		if n := len(ecs.ComponentIDs(&w)); n != 1 {
			c16Violation(rp, "registry:locked-changed", fmt.Sprintf("a registration rejected in a locked world changed ComponentIDs to %d entries", n), hist)
			return evals
		}
		id := ecs.TypeID(&w, mkType(5))
		info, ok := ecs.ComponentInfo(&w, id)
		if sim.IDNum(id) != 1 || !ok || info.IsRelation || info.Type != mkType(5) {
			c16Violation(rp, "registry:locked-leftover", fmt.Sprintf("after a rejected registration of a relation type the next type is reported as ID %d %+v", sim.IDNum(id), info), hist)
			return evals
		}
		evals += 3
	}
	return evals
}

// usability part: every registered ID can be carried, queried and moved, whenever it was registered relative to table creation.
// The default schedule registers all types first; a deviation creates a table (new entity with the newest ID, or adding the
// newest ID to the oldest entity) at an earlier registration count.
type c16dev struct {
	at   int // registration count at which the deviation happens (1..limit)
	kind int // 0: NewEntity(newest), 1: Add(newest) to the first entity
}

func c16Run(limit int, devs []c16dev, probe []int) (fail string, sig string) {
	defer func() {
		if x := recover(); x != nil {
			fail = fmt.Sprintf("panic: %v", x)
			sig = "usable:panic"
		}
	}()
	w := ecs.NewWorld(ecs.NewConfig().WithCapacityIncrement(2))
	ids := []ecs.ID{}
	type ent struct {
		e     ecs.Entity
		comps []int
	}
	ents := []ent{}
	write := func(e ecs.Entity, k int) {
		p := w.Get(e, ids[k])
		if p == nil {
			panic(fmt.Sprintf("Get(%v, id %d) is nil right after creation/addition", e, k))
		}
		b := unsafe.Slice((*byte)(p), compSize(k))
		for i := range b {
			if b[i] != 0 {
				panic(fmt.Sprintf("component id %d of %v is not zero-initialised", k, e))
			}
			b[i] = byte(k + i + int(e.ID()))
		}
	}
	verify := func(where string) (string, string) {
		if err := w.VerifCheckInvariants(); err != nil {
			return fmt.Sprintf("%s: internal structure corrupted: %v", where, err), "usable:invariant"
		}
		for _, en := range ents {
			if !w.Alive(en.e) {
				return fmt.Sprintf("%s: entity %v not alive", where, en.e), "usable:alive"
			}
			m := w.Mask(en.e)
			if m.TotalBitsSet() != len(en.comps) {
				return fmt.Sprintf("%s: entity %v has %d components, expected %d", where, en.e, m.TotalBitsSet(), len(en.comps)), "usable:mask"
			}
			for _, k := range en.comps {
				if !w.Has(en.e, ids[k]) {
					return fmt.Sprintf("%s: entity %v lost component id %d", where, en.e, k), "usable:has"
				}
				p := w.Get(en.e, ids[k])
				if p == nil {
					return fmt.Sprintf("%s: Get(%v, id %d) = nil", where, en.e, k), "usable:get"
				}
				b := unsafe.Slice((*byte)(p), compSize(k))
				for i := range b {
					if b[i] != byte(k+i+int(en.e.ID())) {
						return fmt.Sprintf("%s: component id %d of %v changed", where, k, en.e), "usable:value"
					}
				}
			}
		}
		return "", ""
	}
	di := 0
	var lastChild, lastTarget ecs.Entity
	for n := 1; n <= limit; n++ {
		if n == 1 {
			ids = append(ids, ecs.TypeID(&w, reflect.TypeOf(relFirst{}))) // ID 0 is a relation component (4 bytes)
		} else {
			ids = append(ids, ecs.TypeID(&w, mkType(n-1)))
		}
		for di < len(devs) && devs[di].at == n {
			k := n - 1
			switch devs[di].kind {
			case 2: // a relation table for a fresh target
				lastTarget = w.NewEntity()
				lastChild = ecs.NewBuilder(&w, ids[0]).WithRelation(ids[0]).New(lastTarget)
				ents = append(ents, ent{lastTarget, nil}, ent{lastChild, []int{0}})
				write(lastChild, 0)
				di++
				continue
			case 3: // retire the table: remove the child, then its target
				if !lastChild.IsZero() {
					w.RemoveEntity(lastChild)
					w.RemoveEntity(lastTarget)
					ents = ents[:len(ents)-2]
					lastChild, lastTarget = ecs.Entity{}, ecs.Entity{}
				}
				di++
				continue
			case 4: // a new target: re-uses a retired table if there is one
				t := w.NewEntity()
				c := ecs.NewBuilder(&w, ids[0]).WithRelation(ids[0]).New(t)
				ents = append(ents, ent{t, nil}, ent{c, []int{0}})
				write(c, 0)
				lastChild, lastTarget = c, t
				di++
				continue
			}
			if devs[di].kind == 0 || len(ents) == 0 {
				e := w.NewEntity(ids[k])
				ents = append(ents, ent{e, []int{k}})
				write(e, k)
			} else {
				w.Add(ents[0].e, ids[k])
				ents[0].comps = append(ents[0].comps, k)
				write(ents[0].e, k)
			}
			di++
			if f, s := verify(fmt.Sprintf("after the deviation at %d registered types", n)); f != "" {
				return f, s
			}
		}
	}
	if f, s := verify("after registering all types"); f != "" {
		return f, s
	}
	for _, k := range probe {
		if k >= limit {
			continue
		}
		e := w.NewEntity(ids[k])
		ents = append(ents, ent{e, []int{k}})
		write(e, k)
		q := w.Query(ecs.All(ids[k]))
		cnt := q.Count()
		q.Close()
		want := 0
		for _, en := range ents {
			for _, c := range en.comps {
				if c == k {
					want++
				}
			}
		}
		if cnt != want {
			return fmt.Sprintf("Query(All(id %d)).Count() = %d, expected %d", k, cnt, want), "usable:query"
		}
		// add to and remove from an old entity
		if len(ents) > 1 {
			old := &ents[0]
			has := false
			for _, c := range old.comps {
				if c == k {
					has = true
				}
			}
			if !has {
				w.Add(old.e, ids[k])
				old.comps = append(old.comps, k)
				write(old.e, k)
				if f, s := verify(fmt.Sprintf("after adding id %d to the oldest entity", k)); f != "" {
					return f, s
				}
				w.Remove(old.e, ids[k])
				old.comps = old.comps[:len(old.comps)-1]
			}
		}
		if f, s := verify(fmt.Sprintf("after using id %d", k)); f != "" {
			return f, s
		}
	}
	return "", ""
}

// compSize: component 0 is relFirst (4 bytes), component k > 0 is [k+1]uint8
func compSize(k int) int {
	if k == 0 {
		return 4
	}
	return k + 1
}

func c16Usability(rp *runner.Report) (runs int64) {
	limit := ecs.MaskTotalBits
	probe := []int{0, 1, 15, 16, 17, 31, 32, 63, 64, 65, 127, 128, 129, 191, 192, 193, 239, 240, 241, 254, 255}
	if limit == 64 {
		probe = []int{0, 1, 15, 16, 17, 31, 32, 33, 47, 48, 49, 62, 63}
	}
	boundary := map[int]bool{}
	for c := 1; c <= limit; c++ {
		if c <= 2 || c%16 <= 1 || c%16 == 15 || c >= limit-1 {
			boundary[c] = true
		}
	}
	scheds := [][]c16dev{{}}
	// one deviation: every placement, both kinds
	for c := 1; c <= limit; c++ {
		scheds = append(scheds, []c16dev{{c, 0}})
	}
	// two deviations
	for c1 := 1; c1 <= limit; c1++ {
		for c2 := c1; c2 <= limit; c2++ {
			if rp.Tier != "thorough" && IsTiny() == false && !(boundary[c1] || boundary[c2]) {
				continue
			}
			for k2 := 0; k2 < 2; k2++ {
				if c1 == c2 {
					continue
				}
				scheds = append(scheds, []c16dev{{c1, 0}, {c2, k2}})
			}
		}
	}
	// relation-table lifecycle: create a relation table, retire it (target dies), re-use it for a new target, at all
	// boundary placements relative to the registration count
	bcounts := []int{}
	for c := 1; c <= limit; c++ {
		if boundary[c] || (rp.Tier == "thorough" && c%4 == 0) {
			bcounts = append(bcounts, c)
		}
	}
	for i := 0; i < len(bcounts); i++ {
		for j := i; j < len(bcounts); j++ {
			for k := j; k < len(bcounts); k++ {
				scheds = append(scheds, []c16dev{{bcounts[i], 2}, {bcounts[j], 3}, {bcounts[k], 4}})
			}
			scheds = append(scheds, []c16dev{{bcounts[i], 2}, {bcounts[j], 0}})
		}
	}
	// three deviations at chunk boundaries (thorough)
	if rp.Tier == "thorough" {
		bl := []int{}
		for c := 1; c <= limit; c++ {
			if c%16 <= 1 || c >= limit-1 {
				bl = append(bl, c)
			}
		}
		for i := 0; i < len(bl); i++ {
			for j := i; j < len(bl); j++ {
				for k := j; k < len(bl); k++ {
					if bl[i] == bl[j] || bl[j] == bl[k] {
						continue // the same component can not be added to the same entity twice
					}
					scheds = append(scheds, []c16dev{{bl[i], 0}, {bl[j], 1}, {bl[k], 1}})
				}
			}
		}
	}
	var next int64 = -1
	var mu sync.Mutex
	reported := map[string]bool{}
	var wg sync.WaitGroup
	for wk := 0; wk < runtime.NumCPU(); wk++ {
		wg.Add(1)
		go func() {
			defer wg.Done()
			for {
				i := int(atomic.AddInt64(&next, 1))
				if i >= len(scheds) {
					return
				}
				f, sig := c16Run(limit, scheds[i], probe)
				atomic.AddInt64(&runs, 1)
				if f != "" {
					mu.Lock()
					if !reported[sig] && len(reported) < 3 {
						reported[sig] = true
						hist := []string{fmt.Sprintf("%s build: register %d component types (ID 0: a relation component; ID k: [k+1]uint8)", buildName(), limit)}
						for _, d := range scheds[i] {
							hist = append(hist, fmt.Sprintf("deviation: when %d types are registered, %s", d.at, [...]string{"NewEntity(newest ID)", "Add(newest ID) to the first entity", "t := NewEntity(); child := Builder(relation ID 0).New(t)", "RemoveEntity(child); RemoveEntity(t)", "t2 := NewEntity(); Builder(relation ID 0).New(t2)"}[d.kind]))
						}
						hist = append(hist, "then for every probe ID: NewEntity(id), write/read values, Query(All(id)).Count(), Add/Remove on the oldest entity")
						c16Violation(rp, sig, f, hist)
					}
					mu.Unlock()
				}
			}
		}()
	}
	wg.Wait()
	if len(rp.Samples) < 4 {
		rp.Samples = append(rp.Samples, map[string]interface{}{"build": buildName(), "schedule": fmt.Sprintf("%+v", scheds[len(scheds)/2]), "probe_ids": probe})
	}
	return runs
}

func c16Part(rp *runner.Report) {
	ev := c16Bijection(rp)
	ev += c16EntryPoints(rp)
	runs := c16Usability(rp)
	rp.Trans += ev + int(runs)
	rp.States += int(runs)
	rp.Extra["c16_"+buildName()] = map[string]interface{}{"limit": ecs.MaskTotalBits, "registry_lookups": ev, "registration_schedules_explored": runs}
	fmt.Printf("  C16 (%s build): %d registry lookups, %d registration/table-creation schedules\n", buildName(), ev, runs)
}

func init() {
	TinyParts["C16"] = c16Part
	Checks["C16"] = func(rp *runner.Report) int {
		c16Part(rp)
		mergeTiny(rp)
		rp.NoRuns = true
		rp.Exhaustive = rp.Tier == "thorough"
		return rp.Finish("model_checking", []string{
			"component types are manufactured with reflect.ArrayOf (sizes 1..256 bytes) plus hand-written relation shapes; a first field named Relation of type ecs.Relation that is not embedded is not generated",
			"interleavings of registration with table creation are deviation-bounded: all placements of one deviation, all pairs with at least one deviation at a layout-chunk boundary (quick; all pairs in the tiny build) / all pairs plus boundary triples (thorough)",
			"registration in a locked world is decided by the C09 check",
		}, map[string]interface{}{"method": "exhaustive enumeration of registration counts 0..limit+1 with re-lookups + deviation-bounded enumeration of registration/table-creation schedules, both builds"})
	}
	replayers["c16"] = func(rf *runner.ReplayFile) int {
		rp := runner.NewReport("C16", "quick")
		c16Part(rp)
		if len(rp.Violations) > 0 {
			return 1
		}
		fmt.Println("no failure")
		return 0
	}
}
