package props

import (
	"fmt"
	"reflect"
	"unsafe"

	"github.com/mlange-42/arche/ecs"
	"github.com/mlange-42/arche/generic"
	"verifharness/runner"
	"verifharness/sim"
)

// Entry points of the type registry: the generic functions (ComponentID[T], ResourceID[T], generic.T[T], generic.NewMap[T],
// generic.NewResource[T]) and the reflect-based ones (TypeID, ResourceTypeID) must name the same type by the same ID,
// for every kind of Go type, in whichever order they are first used; distinct types (T and *T!) get distinct IDs.

type (
	epStruct struct{ V int32 }
	epRel    struct {
		ecs.Relation
		V int8
	}
	epInt   int64
	epPtr   *epStruct
	epIface interface{ String() string }
	epAny   interface{}
	epSlice []int
	epMap   map[string]int
	epFunc  func(int) int
	epArr   [3]uint16
	epStr   string
	epChan  chan int
	epEmpty struct{}
)

type epCase struct {
	name   string
	tp     reflect.Type
	rel    bool
	compID func(w *ecs.World) ecs.ID
	resID  func(w *ecs.World) ecs.ResID
	genT   func() reflect.Type
	mapID  func(w *ecs.World) ecs.ID
	gresID func(w *ecs.World) ecs.ResID
}

func epOf[T any](name string, rel bool) epCase {
	return epCase{
		name:   name,
		tp:     reflect.TypeOf((*T)(nil)).Elem(),
		rel:    rel,
		compID: func(w *ecs.World) ecs.ID { return ecs.ComponentID[T](w) },
		resID:  func(w *ecs.World) ecs.ResID { return ecs.ResourceID[T](w) },
		genT:   func() reflect.Type { return reflect.Type(generic.T[T]()) },
		mapID:  func(w *ecs.World) ecs.ID { m := generic.NewMap[T](w); return m.ID() },
		gresID: func(w *ecs.World) ecs.ResID { r := generic.NewResource[T](w); return r.ID() },
	}
}

func epCases() []epCase {
	return []epCase{
		epOf[epStruct]("struct", false), epOf[*epStruct]("pointer to that struct", false), epOf[epRel]("relation struct", true),
		epOf[epInt]("named int64", false), epOf[epPtr]("named pointer type", false), epOf[epIface]("interface with a method", false),
		epOf[epAny]("empty interface", false), epOf[epSlice]("slice", false), epOf[epMap]("map", false), epOf[epFunc]("func", false),
		epOf[epArr]("array", false), epOf[epStr]("string", false), epOf[epChan]("chan", false), epOf[epEmpty]("empty struct", false),
		epOf[**epStruct]("pointer to pointer", false), epOf[[]epStruct]("unnamed slice of structs", false),
	}
}

func resNum(id ecs.ResID) int { return int(*(*uint8)(unsafe.Pointer(&id))) }

func c16EntryPoints(rp *runner.Report) int {
	evals := 0
	cases := epCases()
	// orders: which entry point sees the type first (0 generic function, 1 reflect-based, 2 generic.Map / generic.Resource);
	// the list itself forwards and backwards
	for order := 0; order < 3; order++ {
		for dir := 0; dir < 2; dir++ {
			w := ecs.NewWorld()
			hist := []string{}
			n := 0
			for i := range cases {
				c := cases[i]
				if dir == 1 {
					c = cases[len(cases)-1-i]
				}
				hist = append(hist, fmt.Sprintf("type %v (%s), first used through entry point %d", c.tp, c.name, order))
				var ids [3]ecs.ID
				var rids [3]ecs.ResID
				var gt reflect.Type
				pv := catchP(func() {
					seq := [][3]int{{0, 1, 2}, {1, 0, 2}, {2, 0, 1}}[order]
					for _, k := range seq {
						switch k {
						case 0:
							ids[0], rids[0] = c.compID(&w), c.resID(&w)
						case 1:
							ids[1], rids[1] = ecs.TypeID(&w, c.tp), ecs.ResourceTypeID(&w, c.tp)
						default:
							ids[2], rids[2] = c.mapID(&w), c.gresID(&w)
						}
					}
					gt = c.genT()
				})
				evals += 7
				if pv != nil {
					c16Violation(rp, "registry:entry-panic", fmt.Sprintf("registering %v (%s) through the generic and reflect-based entry points panicked: %v", c.tp, c.name, pv), hist)
					return evals
				}
				if gt != c.tp {
					c16Violation(rp, "registry:entry-type", fmt.Sprintf("generic.T[%v]() names %v", c.tp, gt), hist)
					return evals
				}
				for k := 0; k < 3; k++ {
					if int(sim.IDNum(ids[k])) != n || resNum(rids[k]) != n {
						c16Violation(rp, "registry:entry-disagree", fmt.Sprintf("type %v (%s), registered as number %d: entry point %d reports component ID %d / resource ID %d (0 ComponentID[T]/ResourceID[T], 1 TypeID/ResourceTypeID, 2 generic.Map/generic.Resource)",
							c.tp, c.name, n, k, sim.IDNum(ids[k]), resNum(rids[k])), hist)
						return evals
					}
				}
				info, ok := ecs.ComponentInfo(&w, ids[0])
				rt, ok2 := ecs.ResourceType(&w, rids[0])
				if !ok || !ok2 || info.Type != c.tp || rt != c.tp || info.IsRelation != c.rel {
					c16Violation(rp, "registry:entry-info", fmt.Sprintf("type %v (%s): ComponentInfo reports {%v relation=%t}, ResourceType %v", c.tp, c.name, info.Type, info.IsRelation, rt), hist)
					return evals
				}
				n++
				if len(ecs.ComponentIDs(&w)) != n || len(ecs.ResourceIDs(&w)) != n {
					c16Violation(rp, "registry:entry-count", fmt.Sprintf("after %d distinct types %d component IDs and %d resource IDs are listed", n, len(ecs.ComponentIDs(&w)), len(ecs.ResourceIDs(&w))), hist)
					return evals
				}
				// the component is usable: an entity can carry it
				if pv := catchP(func() {
					e := w.NewEntity(ids[0])
					if !w.Has(e, ids[0]) || w.Get(e, ids[0]) == nil && c.tp.Size() > 0 {
						panic("Has/Get wrong")
					}
					w.RemoveEntity(e)
				}); pv != nil {
					c16Violation(rp, "registry:entry-unusable", fmt.Sprintf("a component of type %v (%s) can not be used: %v", c.tp, c.name, pv), hist)
					return evals
				}
			}
		}
	}
	return evals
}
