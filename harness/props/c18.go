package props

import (
	"fmt"
	"reflect"
	"runtime"
	"sort"
	"strings"
	"sync"
	"sync/atomic"
	"unsafe"

	"github.com/mlange-42/arche/ecs"
	"github.com/mlange-42/arche/generic"
	"verifharness/gen18"
	"verifharness/runner"
)

// ----------------------------------------------------------------------------- shared set-up

type g18 struct {
	w      ecs.World
	ids    []ecs.ID // ids of the arity's types, in position order
	all    []ecs.ID // all registered ids
	gx, gy ecs.ID
	gr     ecs.ID
	ents   []ecs.Entity
}

var allTypes18 = []generic.Comp{generic.T[gen18.G0](), generic.T[gen18.G1](), generic.T[gen18.G2](), generic.T[gen18.G3](), generic.T[gen18.G4](), generic.T[gen18.G5](),
	generic.T[gen18.G6](), generic.T[gen18.G7](), generic.T[gen18.G8](), generic.T[gen18.G9](), generic.T[gen18.G10](), generic.T[gen18.G11](),
	generic.T[gen18.GR](), generic.T[gen18.GX](), generic.T[gen18.GY]()}

func newG18(ar *gen18.Arity) *g18 {
	g := &g18{}
	g.w = ecs.NewWorld(ecs.NewConfig().WithCapacityIncrement(2))
	for _, t := range allTypes18 {
		g.all = append(g.all, ecs.TypeID(&g.w, t))
	}
	g.gr, g.gx, g.gy = g.all[12], g.all[13], g.all[14]
	for _, t := range ar.Types {
		g.ids = append(g.ids, ecs.TypeID(&g.w, t))
	}
	return g
}

// every component type of the menu is a struct whose last 8 bytes are V uint64 (GR: Relation is zero-sized, first)
func valAt(p unsafe.Pointer) *uint64 { return (*uint64)(p) }

func (g *g18) comps(ar *gen18.Arity, vals []uint64) []ecs.Component {
	out := make([]ecs.Component, len(g.ids))
	for i, id := range g.ids {
		v := reflect.New(ar.Types[i])
		*(*uint64)(v.UnsafePointer()) = vals[i]
		out[i] = ecs.Component{ID: id, Comp: v.Interface()}
	}
	return out
}

// snapshot of the complete observable state through the ID-based API
func (g *g18) snap() string {
	var sb strings.Builder
	d := g.w.DumpEntities()
	for i := 1; i < len(d.Entities); i++ {
		e := d.Entities[i]
		if uint32(e.ID()) != uint32(i) || !g.w.Alive(e) {
			fmt.Fprintf(&sb, "%d:dead;", i)
			continue
		}
		fmt.Fprintf(&sb, "%v:", e)
		for k, id := range g.all {
			if g.w.Has(e, id) {
				fmt.Fprintf(&sb, "%d=%d,", k, *valAt(g.w.Get(e, id)))
			}
		}
		if g.w.Has(e, g.gr) {
			fmt.Fprintf(&sb, "->%v", g.w.Relations().Get(e, g.gr))
		}
		sb.WriteString(";")
	}
	return sb.String()
}

// seed world 1: e0 {} (target candidate), e1 {GX}, e2 {GX,GY}, e3 {all N comps, values k+1}, e4 {all N comps + GX} (target e0 in the relation variant)
func (g *g18) seed(ar *gen18.Arity, which int) {
	if which == 0 {
		return
	}
	w := &g.w
	g.ents = append(g.ents, w.NewEntity())
	g.ents = append(g.ents, w.NewEntity(g.gx))
	g.ents = append(g.ents, w.NewEntity(g.gx, g.gy))
	vals := make([]uint64, len(g.ids))
	for i := range vals {
		vals[i] = uint64(i + 1)
	}
	g.ents = append(g.ents, w.NewEntityWith(g.comps(ar, vals)...))
	ids := append(append([]ecs.ID{}, g.ids...), g.gx)
	if ar.Rel {
		g.ents = append(g.ents, ecs.NewBuilder(w, ids...).WithRelation(g.gr).New(g.ents[0]))
	} else {
		g.ents = append(g.ents, w.NewEntity(ids...))
	}
}

type c18case struct {
	name string
	gen  func(g *g18, m gen18.Map) string // performs the generic call, returns a transcript of results
	ref  func(g *g18) string              // performs the documented ID-based equivalent
	seed int
	rel  bool // needs the relation variant with a map constructed with relation
	// mustPanic: the generic call is documented to panic (a target although the map has no relation); ref is not run
	mustPanic bool
}

func posCheck(g *g18, q gen18.Query, write uint64) string {
	// iterates a generic query: Get() positions must alias Query.Get(id_k); writes tokens through them
	var sb strings.Builder
	n := 0
	for q.Q().Next() {
		ps := q.Get()
		e := q.Q().Entity()
		for k, p := range ps {
			if p != q.Q().Get(g.ids[k]) {
				return fmt.Sprintf("POSITION-MISMATCH at %v position %d", e, k)
			}
			if p != nil && write != 0 {
				*valAt(p) = write + uint64(k)
			}
		}
		n++
	}
	fmt.Fprintf(&sb, "visited=%d", n)
	return sb.String()
}

func refQuery(g *g18, q *ecs.Query, write uint64) string {
	n := 0
	for q.Next() {
		for k, id := range g.ids {
			if p := q.Get(id); p != nil && write != 0 {
				*valAt(p) = write + uint64(k)
			}
		}
		n++
	}
	return fmt.Sprintf("visited=%d", n)
}

func c18Cases(ar *gen18.Arity) []c18case {
	n := ar.N
	vals := make([]uint64, n)
	for i := range vals {
		vals[i] = uint64(100 + i)
	}
	addFilter := func(g *g18) ecs.Filter {
		f := ecs.All(g.gx).Without(g.ids...)
		return &f
	}
	cs := []c18case{
		{name: "New", seed: 1,
			gen: func(g *g18, m gen18.Map) string { return fmt.Sprint(m.New()) },
			ref: func(g *g18) string { return fmt.Sprint(g.w.NewEntity(g.ids...)) }},
		{name: "New(empty world)", seed: 0,
			gen: func(g *g18, m gen18.Map) string { return fmt.Sprint(m.New(), m.New()) },
			ref: func(g *g18) string { return fmt.Sprint(g.w.NewEntity(g.ids...), g.w.NewEntity(g.ids...)) }},
		{name: "NewBatch", seed: 1,
			gen: func(g *g18, m gen18.Map) string { m.NewBatch(3); return "" },
			ref: func(g *g18) string { ecs.NewBuilder(&g.w, g.ids...).NewBatch(3); return "" }},
		{name: "NewBatchQ", seed: 1,
			gen: func(g *g18, m gen18.Map) string { return posCheck(g, m.NewBatchQ(3), 500) },
			ref: func(g *g18) string { q := ecs.NewBuilder(&g.w, g.ids...).NewBatchQ(3); return refQuery(g, &q, 500) }},
		{name: "NewWith", seed: 1,
			gen: func(g *g18, m gen18.Map) string { return fmt.Sprint(m.NewWith(vals)) },
			ref: func(g *g18) string { return fmt.Sprint(g.w.NewEntityWith(g.comps(ar, vals)...)) }},
		{name: "Add", seed: 1,
			gen: func(g *g18, m gen18.Map) string { m.Add(g.ents[1]); return "" },
			ref: func(g *g18) string { g.w.Add(g.ents[1], g.ids...); return "" }},
		{name: "AddBatch", seed: 1,
			gen: func(g *g18, m gen18.Map) string { return fmt.Sprint(m.AddBatch(addFilter(g))) },
			ref: func(g *g18) string { return fmt.Sprint(g.w.Batch().Add(addFilter(g), g.ids...)) }},
		{name: "AddBatchQ", seed: 1,
			gen: func(g *g18, m gen18.Map) string { return posCheck(g, m.AddBatchQ(addFilter(g)), 700) },
			ref: func(g *g18) string { q := g.w.Batch().AddQ(addFilter(g), g.ids...); return refQuery(g, &q, 700) }},
		{name: "Assign", seed: 1,
			gen: func(g *g18, m gen18.Map) string { m.Assign(g.ents[2], vals); return "" },
			ref: func(g *g18) string { g.w.Assign(g.ents[2], g.comps(ar, vals)...); return "" }},
		{name: "Remove", seed: 1,
			gen: func(g *g18, m gen18.Map) string { m.Remove(g.ents[4]); return "" },
			ref: func(g *g18) string { g.w.Remove(g.ents[4], g.ids...); return "" }},
		{name: "RemoveBatch", seed: 1,
			gen: func(g *g18, m gen18.Map) string { return fmt.Sprint(m.RemoveBatch(ecs.All(g.ids...))) },
			ref: func(g *g18) string { return fmt.Sprint(g.w.Batch().Remove(ecs.All(g.ids...), g.ids...)) }},
		{name: "RemoveBatchQ", seed: 1,
			gen: func(g *g18, m gen18.Map) string { return posCheck(g, m.RemoveBatchQ(ecs.All(g.ids...)), 0) },
			ref: func(g *g18) string { q := g.w.Batch().RemoveQ(ecs.All(g.ids...), g.ids...); return refQuery(g, &q, 0) }},
		{name: "RemoveEntities(false)", seed: 1,
			gen: func(g *g18, m gen18.Map) string { return fmt.Sprint(m.RemoveEntities(false)) },
			ref: func(g *g18) string { return fmt.Sprint(g.w.Batch().RemoveEntities(ecs.All(g.ids...))) }},
		{name: "RemoveEntities(true)", seed: 1,
			gen: func(g *g18, m gen18.Map) string { return fmt.Sprint(m.RemoveEntities(true)) },
			ref: func(g *g18) string {
				f := ecs.All(g.ids...).Exclusive()
				return fmt.Sprint(g.w.Batch().RemoveEntities(&f))
			}},
		{name: "Get", seed: 1,
			gen: func(g *g18, m gen18.Map) string {
				out := ""
				for _, e := range []ecs.Entity{g.ents[3], g.ents[4]} {
					ps, pu := m.Get(e), m.GetUnchecked(e)
					for k := range ps {
						if ps[k] != g.w.Get(e, g.ids[k]) || pu[k] != ps[k] {
							return fmt.Sprintf("POSITION-MISMATCH in Get(%v) position %d", e, k)
						}
						*valAt(ps[k]) += 1000
						out += fmt.Sprint(*valAt(ps[k]), ",")
					}
				}
				return out
			},
			ref: func(g *g18) string {
				out := ""
				for _, e := range []ecs.Entity{g.ents[3], g.ents[4]} {
					for _, id := range g.ids {
						p := g.w.Get(e, id)
						*valAt(p) += 1000
						out += fmt.Sprint(*valAt(p), ",")
					}
				}
				return out
			}},
	}
	cs = append(cs, c18case{name: "Get(removed entity whose ID was recycled)", seed: 1,
		gen: func(g *g18, m gen18.Map) string {
			old := g.ents[3]
			g.w.RemoveEntity(old)
			g.w.NewEntityWith(g.comps(ar, vals)...) // recycles the ID
			m.Get(old)
			return ""
		},
		ref: func(g *g18) string {
			old := g.ents[3]
			g.w.RemoveEntity(old)
			g.w.NewEntityWith(g.comps(ar, vals)...)
			g.w.Get(old, g.ids[0])
			return ""
		}})
	if ar.Rel {
		rb := func(g *g18) *ecs.Builder { return ecs.NewBuilder(&g.w, g.ids...).WithRelation(g.gr) }
		cs = append(cs,
			c18case{name: "New(target)", seed: 1, rel: true,
				gen: func(g *g18, m gen18.Map) string { return fmt.Sprint(m.New(g.ents[0])) },
				ref: func(g *g18) string { return fmt.Sprint(rb(g).New(g.ents[0])) }},
			c18case{name: "NewBatch(target)", seed: 1, rel: true,
				gen: func(g *g18, m gen18.Map) string { m.NewBatch(2, g.ents[1]); return "" },
				ref: func(g *g18) string { rb(g).NewBatch(2, g.ents[1]); return "" }},
			c18case{name: "NewBatchQ(target)", seed: 1, rel: true,
				gen: func(g *g18, m gen18.Map) string {
					q := m.NewBatchQ(2, g.ents[1])
					q.Q().Next()
					t := q.Relation()
					q.Q().Close()
					return fmt.Sprint(t)
				},
				ref: func(g *g18) string {
					q := rb(g).NewBatchQ(2, g.ents[1])
					q.Next()
					t := q.Relation(g.gr)
					q.Close()
					return fmt.Sprint(t)
				}},
			c18case{name: "NewWith(target)", seed: 1, rel: true,
				gen: func(g *g18, m gen18.Map) string { return fmt.Sprint(m.NewWith(vals, g.ents[0])) },
				ref: func(g *g18) string {
					return fmt.Sprint(ecs.NewBuilderWith(&g.w, g.comps(ar, vals)...).WithRelation(g.gr).New(g.ents[0]))
				}},
			c18case{name: "Add(target)", seed: 1, rel: true,
				gen: func(g *g18, m gen18.Map) string { m.Add(g.ents[1], g.ents[0]); return "" },
				ref: func(g *g18) string { g.w.Relations().Exchange(g.ents[1], g.ids, nil, g.gr, g.ents[0]); return "" }},
			c18case{name: "AddBatch(target)", seed: 1, rel: true,
				gen: func(g *g18, m gen18.Map) string { return fmt.Sprint(m.AddBatch(addFilter(g), g.ents[0])) },
				ref: func(g *g18) string {
					return fmt.Sprint(g.w.Relations().ExchangeBatch(addFilter(g), g.ids, nil, g.gr, g.ents[0]))
				}},
			c18case{name: "AddBatchQ(target)", seed: 1, rel: true,
				gen: func(g *g18, m gen18.Map) string { return posCheck(g, m.AddBatchQ(addFilter(g), g.ents[0]), 900) },
				ref: func(g *g18) string {
					q := g.w.Relations().ExchangeBatchQ(addFilter(g), g.ids, nil, g.gr, g.ents[0])
					return refQuery(g, &q, 900)
				}},
			c18case{name: "Remove(target)", seed: 1, rel: true,
				gen: func(g *g18, m gen18.Map) string { m.Remove(g.ents[4], g.ents[1]); return "" },
				ref: func(g *g18) string { g.w.Relations().Exchange(g.ents[4], nil, g.ids, g.gr, g.ents[1]); return "" }},
			c18case{name: "RemoveBatch(target)", seed: 1, rel: true,
				gen: func(g *g18, m gen18.Map) string { return fmt.Sprint(m.RemoveBatch(ecs.All(g.ids...), g.ents[1])) },
				ref: func(g *g18) string {
					return fmt.Sprint(g.w.Relations().ExchangeBatch(ecs.All(g.ids...), nil, g.ids, g.gr, g.ents[1]))
				}},
			c18case{name: "RemoveBatchQ(target)", seed: 1, rel: true,
				gen: func(g *g18, m gen18.Map) string { return posCheck(g, m.RemoveBatchQ(ecs.All(g.ids...), g.ents[1]), 0) },
				ref: func(g *g18) string {
					q := g.w.Relations().ExchangeBatchQ(ecs.All(g.ids...), nil, g.ids, g.gr, g.ents[1])
					return refQuery(g, &q, 0)
				}},
		)
	}
	// a target although the map was constructed without relation: documented to panic, for every method taking a target
	tgt := func(g *g18) ecs.Entity { return g.ents[0] }
	cs = append(cs,
		c18case{name: "New(target) without relation", seed: 1, mustPanic: true, gen: func(g *g18, m gen18.Map) string { m.New(tgt(g)); return "" }},
		c18case{name: "NewBatch(target) without relation", seed: 1, mustPanic: true, gen: func(g *g18, m gen18.Map) string { m.NewBatch(1, tgt(g)); return "" }},
		c18case{name: "NewBatchQ(target) without relation", seed: 1, mustPanic: true, gen: func(g *g18, m gen18.Map) string {
			q := m.NewBatchQ(1, tgt(g))
			q.Q().Close()
			return ""
		}},
		c18case{name: "NewWith(target) without relation", seed: 1, mustPanic: true, gen: func(g *g18, m gen18.Map) string { m.NewWith(vals, tgt(g)); return "" }},
		c18case{name: "Add(target) without relation", seed: 1, mustPanic: true, gen: func(g *g18, m gen18.Map) string { m.Add(g.ents[1], tgt(g)); return "" }},
		c18case{name: "AddBatch(target) without relation", seed: 1, mustPanic: true, gen: func(g *g18, m gen18.Map) string { m.AddBatch(addFilter(g), tgt(g)); return "" }},
		c18case{name: "AddBatchQ(target) without relation", seed: 1, mustPanic: true, gen: func(g *g18, m gen18.Map) string {
			q := m.AddBatchQ(addFilter(g), tgt(g))
			q.Q().Close()
			return ""
		}},
		c18case{name: "Remove(target) without relation", seed: 1, mustPanic: true, gen: func(g *g18, m gen18.Map) string { m.Remove(g.ents[4], tgt(g)); return "" }},
		c18case{name: "RemoveBatch(target) without relation", seed: 1, mustPanic: true, gen: func(g *g18, m gen18.Map) string { m.RemoveBatch(ecs.All(g.ids...), tgt(g)); return "" }},
		c18case{name: "RemoveBatchQ(target) without relation", seed: 1, mustPanic: true, gen: func(g *g18, m gen18.Map) string {
			q := m.RemoveBatchQ(ecs.All(g.ids...), tgt(g))
			q.Q().Close()
			return ""
		}},
	)
	return cs
}

// c18FilterPanics checks documented panics of FilterN/QueryN that are independent of builder order.
func c18FilterPanics(ar *gen18.Arity) string {
	g := newG18(ar)
	g.filterWorld(ar)
	// Relation() on a query whose filter has no relation configured
	{
		f := ar.NewFilter()
		var q gen18.Query
		if pv := catchP(func() { q = f.Query(&g.w) }); pv != nil {
			return fmt.Sprintf("Query() of an unconfigured filter panicked: %v", pv)
		}
		bad := ""
		if q.Q().Next() {
			if !panicsP(func() { q.Relation() }) {
				bad = "QueryN.Relation() of a filter without WithRelation did not panic"
			}
		}
		q.Q().Close()
		if bad != "" {
			return bad
		}
	}
	// a component of the filter that is not a relation
	plain := ar.Types[ar.N-1]
	if ar.N == 1 && ar.Rel {
		plain = nil
	}
	if plain != nil {
		f := ar.NewFilter()
		f.WithRelation(plain)
		if !panicsP(func() { q := f.Query(&g.w); q.Q().Close() }) {
			return fmt.Sprintf("WithRelation(%v) (not a relation component); Query() did not panic", plain)
		}
		f2 := ar.NewFilter()
		f2.WithRelation(plain)
		if !panicsP(func() { f2.Register(&g.w) }) {
			return fmt.Sprintf("WithRelation(%v) (not a relation component); Register() did not panic", plain)
		}
	}
	// a relation component that is not part of the filter
	if !ar.Rel {
		f := ar.NewFilter()
		f.WithRelation(generic.T[gen18.GR]())
		if !panicsP(func() { q := f.Query(&g.w); q.Q().Close() }) {
			return "WithRelation(GR) although GR is not in the filter; Query() did not panic"
		}
	}
	if g.w.IsLocked() {
		return "a rejected Query()/Register() left the world locked"
	}
	return ""
}

func panicsP(f func()) bool { return catchP(f) != nil }

// runs one case on twin worlds; returns "" or a description of the disagreement
func c18RunCase(ar *gen18.Arity, c *c18case) (msg string) {
	a, b := newG18(ar), newG18(ar)
	a.seed(ar, c.seed)
	b.seed(ar, c.seed)
	var m gen18.Map
	if c.rel {
		m = ar.NewMap(&a.w, generic.T[gen18.GR]())
	} else {
		m = ar.NewMap(&a.w)
	}
	var ra, rb string
	pa := catchP(func() { ra = c.gen(a, m) })
	if c.mustPanic {
		if pa == nil {
			return "a target was given to a map without relation component, but the call did not panic"
		}
		if a.snap() != b.snap() || a.w.IsLocked() {
			return "a target was given to a map without relation component: the call panicked, but changed the world"
		}
		return ""
	}
	pb := catchP(func() { rb = c.ref(b) })
	if (pa == nil) != (pb == nil) {
		return fmt.Sprintf("generic call panicked: %v; ID-based equivalent panicked: %v", pa, pb)
	}
	if pa != nil {
		return ""
	}
	if ra != rb {
		return fmt.Sprintf("results differ: generic %q, ID-based equivalent %q", ra, rb)
	}
	if a.w.IsLocked() != b.w.IsLocked() {
		return "lock state differs"
	}
	sa, sb := a.snap(), b.snap()
	if sa != sb {
		return fmt.Sprintf("worlds differ afterwards:\n    generic:  %s\n    ID-based: %s", sa, sb)
	}
	return ""
}

// ----------------------------------------------------------------------------- filter builder state machine

type fcfg struct {
	with, without, optional bool
	exclusive               bool
	rel                     bool
	fixed                   bool
	fixedT                  int // 1 or 2
	registered              bool
	withGR                  bool // N == 0: With(GR) was called
}

const (
	fbWith = iota
	fbWithout
	fbOptional
	fbExclusive
	fbWithRel
	fbWithRelT1
	fbRegister
	fbUnregister
	fbQuery
	fbQueryT2
	fbWithGR
	fbWithRelT0 // WithRelation(GR, zero entity): a fixed target that is the zero entity (entities without a target)
	fbQueryT0   // Query(zero entity)
	fbNumOps
)

var fbNames = [...]string{"With(GX)", "Without(GY)", "Optional(last)", "Exclusive()", "WithRelation(GR)", "WithRelation(GR, T1)", "Register", "Unregister", "Query()", "Query(T2)", "With(GR)", "WithRelation(GR, zero entity)", "Query(zero entity)"}

type fent struct {
	e      ecs.Entity
	comps  map[ecs.ID]bool
	target int // 0 zero/none, 1, 2
}

// builds the fixed world holding every relevant component subset; returns entities
func (g *g18) filterWorld(ar *gen18.Arity) (ents []fent, t1, t2 ecs.Entity) {
	w := &g.w
	t1, t2 = w.NewEntity(), w.NewEntity()
	ents = append(ents, fent{t1, map[ecs.ID]bool{}, 0}, fent{t2, map[ecs.ID]bool{}, 0})
	n := len(g.ids)
	for opt := 0; opt < 2; opt++ {
		for x := 0; x < 2; x++ {
			for y := 0; y < 2; y++ {
				for gr := 0; gr < 4; gr++ { // 0: no GR (plain variant / N=0), 1..3: GR with target zero, T1, T2
					hasGR := gr > 0
					if ar.Rel && !hasGR {
						continue
					}
					if !ar.Rel && n > 0 && hasGR {
						continue
					}
					ids := []ecs.ID{}
					for k, id := range g.ids {
						if k == n-1 && n > 1 && opt == 0 {
							continue // the optional candidate is absent
						}
						ids = append(ids, id)
					}
					if n <= 1 && opt == 0 {
						continue
					}
					if x == 1 {
						ids = append(ids, g.gx)
					}
					if y == 1 {
						ids = append(ids, g.gy)
					}
					if hasGR && !ar.Rel {
						ids = append(ids, g.gr)
					}
					var e ecs.Entity
					tgt := 0
					if hasGR {
						tgt = gr - 1
						e = ecs.NewBuilder(w, ids...).WithRelation(g.gr).New([]ecs.Entity{{}, t1, t2}[tgt])
					} else {
						e = w.NewEntity(ids...)
					}
					cm := map[ecs.ID]bool{}
					for _, id := range ids {
						cm[id] = true
					}
					ents = append(ents, fent{e, cm, tgt})
				}
			}
		}
	}
	return
}

func c18FilterSeq(ar *gen18.Arity, seq []int) (msg string, sig string, queries int) {
	g := newG18(ar)
	ents, t1, t2 := g.filterWorld(ar)
	n := ar.N
	f := ar.NewFilter()
	var c fcfg
	desc := func(i int) string {
		s := []string{}
		for _, o := range seq[:i+1] {
			s = append(s, fbNames[o])
		}
		return strings.Join(s, "; ")
	}
	for i, op := range seq {
		// legality according to the documentation
		illegal := false
		unspecified := false
		switch op {
		case fbWith, fbWithGR, fbOptional, fbWithRel, fbWithRelT1, fbWithRelT0:
			illegal = c.registered
		case fbWithout:
			illegal = c.registered || c.exclusive
		case fbExclusive:
			illegal = c.registered || c.without
		case fbRegister:
			illegal = c.registered
		case fbUnregister:
			illegal = !c.registered
		case fbQueryT2, fbQueryT0:
			illegal = c.registered || c.fixed
			if !c.rel {
				unspecified = true
			}
		}
		// compile-time errors (relation component not part of the filter) surface at Register/Query
		relBroken := c.rel && !(ar.Rel || c.withGR)
		if (op == fbQuery || op == fbQueryT2 || op == fbQueryT0 || op == fbRegister) && relBroken && !c.registered {
			illegal = true
		}
		if unspecified {
			return "", "", queries
		}
		var q gen18.Query
		pv := catchP(func() {
			switch op {
			case fbWith:
				f.With(generic.T[gen18.GX]())
			case fbWithGR:
				f.With(generic.T[gen18.GR]())
			case fbWithout:
				f.Without(generic.T[gen18.GY]())
			case fbOptional:
				f.Optional(ar.Types[n-1])
			case fbExclusive:
				f.Exclusive()
			case fbWithRel:
				f.WithRelation(generic.T[gen18.GR]())
			case fbWithRelT1:
				f.WithRelation(generic.T[gen18.GR](), t1)
			case fbWithRelT0:
				f.WithRelation(generic.T[gen18.GR](), ecs.Entity{})
			case fbQueryT0:
				q = f.Query(&g.w, ecs.Entity{})
			case fbRegister:
				f.Register(&g.w)
			case fbUnregister:
				f.Unregister(&g.w)
			case fbQuery:
				q = f.Query(&g.w)
			case fbQueryT2:
				q = f.Query(&g.w, t2)
			}
		})
		if illegal {
			if pv == nil {
				if q != nil {
					q.Q().Close()
				}
				return fmt.Sprintf("%s: the last call is documented to panic but did not", desc(i)), "filter:nopanic:" + fbNames[op], queries
			}
			if op == fbQuery || op == fbQueryT2 || op == fbQueryT0 || op == fbRegister {
				return "", "", queries // a failed compile leaves the builder in an unspecified state
			}
			continue
		}
		if pv != nil {
			return fmt.Sprintf("%s: the last call panicked: %v", desc(i), pv), "filter:panic:" + fbNames[op], queries
		}
		switch op {
		case fbWith:
			c.with = true
		case fbWithGR:
			c.withGR = true
		case fbWithout:
			c.without = true
		case fbOptional:
			c.optional = true
		case fbExclusive:
			c.exclusive = true
		case fbWithRel:
			c.rel = true
		case fbWithRelT1:
			c.rel, c.fixed, c.fixedT = true, true, 1
		case fbWithRelT0:
			c.rel, c.fixed, c.fixedT = true, true, 0
		case fbRegister:
			c.registered = true
		case fbUnregister:
			c.registered = false
		case fbQuery, fbQueryT2, fbQueryT0:
			queries++
			// expected selection from the configuration as it is now
			required := map[ecs.ID]bool{}
			for k, id := range g.ids {
				if c.optional && k == n-1 {
					continue
				}
				required[id] = true
			}
			if c.with {
				required[g.gx] = true
			}
			if c.withGR {
				required[g.gr] = true
			}
			target := 0
			hasT := false
			if c.fixed {
				target, hasT = c.fixedT, true
			}
			if op == fbQueryT2 {
				target, hasT = 2, true
			}
			if op == fbQueryT0 {
				target, hasT = 0, true
			}
			want := map[ecs.Entity]bool{}
			for _, en := range ents {
				ok := true
				for id := range required {
					if !en.comps[id] {
						ok = false
					}
				}
				if c.without && en.comps[g.gy] {
					ok = false
				}
				if c.exclusive {
					for id := range en.comps {
						if !required[id] {
							ok = false
						}
					}
				}
				if hasT && (!en.comps[g.gr] || en.target != target) {
					ok = false
				}
				if ok {
					want[en.e] = true
				}
			}
			got := map[ecs.Entity]bool{}
			bad := ""
			for q.Q().Next() {
				e := q.Q().Entity()
				got[e] = true
				ps := q.Get()
				for k, p := range ps {
					if p != g.w.Get(e, g.ids[k]) {
						bad = fmt.Sprintf("Get() position %d at %v is not the component of the declared type (nil for an absent optional one)", k, e)
					}
				}
				if c.rel && g.w.Has(e, g.gr) {
					if t := q.Relation(); t != g.w.Relations().Get(e, g.gr) {
						bad = fmt.Sprintf("Relation() at %v = %v", e, t)
					}
				}
			}
			if bad != "" {
				return desc(i) + ": " + bad, "filter:get-position", queries
			}
			if len(got) != len(want) {
				return fmt.Sprintf("%s: the query selects %d entities, the equivalent core filter for the configuration at that moment selects %d", desc(i), len(got), len(want)), "filter:selection", queries
			}
			for e := range got {
				if !want[e] {
					return fmt.Sprintf("%s: the query selects %v, which the equivalent core filter does not", desc(i), e), "filter:selection", queries
				}
			}
		}
	}
	return "", "", queries
}

func maxInt(a, b int) int {
	if a > b {
		return a
	}
	return b
}

// ----------------------------------------------------------------------------- the check

// c18MapPart runs every Map method of every arity against its ID-based equivalent (also a part of C01: the generic maps
// and queries are one of the access paths to component data; a positional slip writes into the wrong column).
func c18MapPart(rp *runner.Report) int {
	n := 0
	for v := 0; v < 2; v++ {
		for ar := 1; ar <= 12; ar++ {
			a := &gen18.Arities[v][ar]
			cs := c18Cases(a)
			for ci := range cs {
				n++
				if msg := c18RunCase(a, &cs[ci]); msg != "" {
					variant := [...]string{"plain", "relation in position 0"}[v]
					rp.Violation(&runner.ReplayFile{Scenario: "c18", Sig: "map:" + cs[ci].name, Kind: "c18",
						Msg:     fmt.Sprintf("Map%d.%s (%s): %s", ar, cs[ci].name, variant, msg),
						OpsText: []string{fmt.Sprintf("Map%d.%s on seed world %d, variant %s", ar, cs[ci].name, cs[ci].seed, variant)}})
					return n
				}
			}
		}
	}
	return n
}

// c18RegisterPart runs the filter-builder call sequences that contain Register (length <= 4, arities 0, 1, 2, 3, 12): a part of
// C07 - registering a generic filter never changes what it selects.
func c18RegisterPart(rp *runner.Report) int {
	n := 0
	for v := 0; v < 2; v++ {
		for _, ar := range []int{0, 1, 2, 3, 12} {
			if ar == 0 && v == 1 {
				continue
			}
			a := &gen18.Arities[v][ar]
			ops := []int{fbWith, fbWithout, fbExclusive, fbRegister, fbUnregister, fbQuery}
			if v == 1 || ar == 0 {
				ops = append(ops, fbWithRel, fbWithRelT1, fbWithRelT0, fbQueryT2)
			}
			if ar == 0 {
				ops = append(ops, fbWithGR)
			}
			var rec func(seq []int) bool
			rec = func(seq []int) bool {
				if len(seq) > 0 && (seq[len(seq)-1] == fbQuery || seq[len(seq)-1] == fbQueryT2) {
					hasReg := false
					for _, o := range seq {
						hasReg = hasReg || o == fbRegister
					}
					if hasReg {
						n++
						if msg, sig, _ := c18FilterSeq(a, seq); msg != "" {
							rp.Violation(&runner.ReplayFile{Scenario: "c18", Sig: sig, Kind: "c18",
								Msg: fmt.Sprintf("Filter%d (%s): %s", ar, [...]string{"plain", "relation in position 0"}[v], msg), OpsText: []string{msg}})
							return true
						}
					}
				}
				if len(seq) == 4 {
					return false
				}
				for _, o := range ops {
					if rec(append(seq, o)) {
						return true
					}
				}
				return false
			}
			if rec(nil) {
				return n
			}
		}
	}
	return n
}

func init() {
	ExtraParts["C01"] = func(rp *runner.Report) {
		n := c18MapPart(rp)
		rp.Trans += n
		fmt.Printf("  generic access paths: %d Map/Query method cases (12 arities x 2 variants) against the ID-based core\n", n)
	}
	ExtraParts["C07"] = func(rp *runner.Report) {
		n := c18RegisterPart(rp)
		rp.Trans += n
		fmt.Printf("  generic filters: %d builder call sequences containing Register compared with the core filter\n", n)
	}
	Checks["C18"] = func(rp *runner.Report) int {
		var evals, states int64
		reported := map[string]bool{}
		var mu sync.Mutex
		viol := func(sig, msg string, hist []string) {
			mu.Lock()
			defer mu.Unlock()
			if reported[sig] {
				return
			}
			reported[sig] = true
			rp.Violation(&runner.ReplayFile{Scenario: "c18", Sig: sig, Msg: msg, OpsText: hist, Kind: "c18"})
		}
		// (a), (b): every Map method of every arity, both variants, against the documented ID-based equivalent
		for v := 0; v < 2; v++ {
			for n := 1; n <= 12; n++ {
				ar := &gen18.Arities[v][n]
				// generic.T<N>[...]() lists the same types in the same order as generic.T[..]() one by one
				if tn := ar.TN(); len(tn) != len(ar.Types) {
					viol("tn:len", fmt.Sprintf("generic.T%d returns %d types", n, len(tn)), nil)
				} else {
					for k := range tn {
						evals++
						if tn[k] != ar.Types[k] {
							viol("tn:position", fmt.Sprintf("generic.T%d: position %d is %v, expected %v", n, k, tn[k], ar.Types[k]), nil)
						}
					}
				}
				// documented panics of the filter/query types: Relation() on a query without WithRelation; WithRelation with a
				// component that is in the filter but is not a relation; WithRelation with a component outside the filter
				if msg := c18FilterPanics(ar); msg != "" {
					viol("filter:documented-panic", fmt.Sprintf("Filter%d (%s): %s", n, [...]string{"plain", "relation in position 0"}[v], msg), nil)
				}
				evals += 4
				cs := c18Cases(ar)
				for ci := range cs {
					evals++
					if msg := c18RunCase(ar, &cs[ci]); msg != "" {
						variant := [...]string{"plain", "relation in position 0"}[v]
						viol("map:"+cs[ci].name, fmt.Sprintf("Map%d.%s (%s): %s", n, cs[ci].name, variant, msg), []string{fmt.Sprintf("Map%d.%s on seed world %d, variant %s", n, cs[ci].name, cs[ci].seed, variant)})
					}
				}
			}
		}
		mapCases := evals
		// Map / Exchange / Resource (non-generated generic types)
		if msg := c18Misc(); msg != "" {
			viol("misc", msg, []string{msg})
		}
		rp.Extra["exchange_matrix_cases"] = c18ExchangeCases
		// (c): filter builder call sequences
		maxLen := 5
		arities := []int{0, 1, 2, 3, 4, 5, 6, 7, 8, 9, 10, 11, 12}
		if rp.Tier == "thorough" {
			maxLen = 6
		}
		type task struct {
			v, n int
			seq  []int
		}
		tasks := []task{}
		for v := 0; v < 2; v++ {
			for _, n := range arities {
				ops := []int{fbWith, fbWithout, fbExclusive, fbRegister, fbUnregister, fbQuery}
				if n >= 2 || (n == 1 && v == 0) {
					ops = append(ops, fbOptional)
				}
				if v == 1 && n >= 1 {
					ops = append(ops, fbWithRel, fbWithRelT1, fbQueryT2, fbWithRelT0, fbQueryT0)
				}
				if n == 0 {
					if v == 1 {
						continue
					}
					ops = append(ops, fbWithGR, fbWithRel, fbWithRelT1, fbQueryT2, fbWithRelT0, fbQueryT0)
				}
				var rec func(seq []int)
				rec = func(seq []int) {
					if len(seq) > 0 && (seq[len(seq)-1] == fbQuery || seq[len(seq)-1] == fbQueryT2 || seq[len(seq)-1] == fbQueryT0) {
						tasks = append(tasks, task{v, n, append([]int{}, seq...)})
					}
					if len(seq) == maxLen {
						return
					}
					for _, o := range ops {
						// Exclusive together with Optional: the two calls compose as each is defined on its own - Optional takes
						// the component out of the required set, Exclusive excludes everything outside the required set
						// (the core filter All(required...).Exclusive())
						rec(append(seq, o))
					}
				}
				rec(nil)
			}
		}
		sort.SliceStable(tasks, func(a, b int) bool { return len(tasks[a].seq) < len(tasks[b].seq) })
		var next int64 = -1
		var wg sync.WaitGroup
		var queries int64
		for wk := 0; wk < runtime.NumCPU(); wk++ {
			wg.Add(1)
			go func() {
				defer wg.Done()
				for {
					i := int(atomic.AddInt64(&next, 1))
					if i >= len(tasks) {
						return
					}
					t := tasks[i]
					ar := &gen18.Arities[t.v][t.n]
					msg, sig, q := c18FilterSeq(ar, t.seq)
					atomic.AddInt64(&queries, int64(q))
					if msg != "" {
						variant := [...]string{"plain", "relation in position 0"}[t.v]
						hist := []string{fmt.Sprintf("f := NewFilter%d[...]() (%s)", t.n, variant)}
						for _, o := range t.seq {
							hist = append(hist, "f."+fbNames[o])
						}
						viol(sig, fmt.Sprintf("Filter%d (%s): %s", t.n, variant, msg), hist)
					}
				}
			}()
		}
		wg.Wait()
		states = int64(len(tasks))
		rp.States += int(states)
		rp.Trans += int(evals) + int(queries)
		rp.NoRuns = true
		rp.Exhaustive = true
		sampleSeqs := []string{}
		for _, i := range []int{0, len(tasks) / 3, len(tasks) - 1} {
			s := []string{}
			for _, o := range tasks[i].seq {
				s = append(s, fbNames[o])
			}
			sampleSeqs = append(sampleSeqs, fmt.Sprintf("Filter%d: %s", tasks[i].n, strings.Join(s, "; ")))
		}
		rp.Samples = append(rp.Samples, map[string]interface{}{"filter_builder_sequences": sampleSeqs, "map_case": "Map7.AddBatchQ(All(GX).Without(ids...), target) vs Relations.ExchangeBatchQ"})
		fmt.Printf("  C18: %d Map method cases (12 arities x 2 variants), %d filter-builder call sequences (length <= %d, arities %v) with %d queries compared\n", mapCases, len(tasks), maxLen, arities, queries)
		sigs := []string{}
		for s := range reported {
			sigs = append(sigs, s)
		}
		sort.Strings(sigs)
		return rp.Finish("model_checking", []string{
			"generic types are instantiated with 12 distinct 8-byte component types (plus a relation type in position 0 in the second variant); every MapN method is compared with its documented ID-based equivalent on twin worlds from two seed worlds",
			"filter builder: all call sequences up to the stated length over {With, Without, Optional, Exclusive, WithRelation(+-target), Register, Unregister, Query(+-target)}; Exclusive combined with Optional is asserted as the composition of the two calls (exclusive relative to the required components); Query(target) without WithRelation is not asserted (documentation unclear)",
		}, map[string]interface{}{"map_method_cases": mapCases, "filter_sequences": len(tasks), "queries_compared": queries, "max_sequence_length": maxLen, "arities_filter": arities,
			"method": "exhaustive enumeration of call sequences of the filter builder (bounded length) and of all Map methods x arities, each executed on the real implementation and compared with the core API on a twin world"})
	}
	replayers["c18"] = func(rf *runner.ReplayFile) int {
		rp := runner.NewReport("C18", "quick")
		return Checks["C18"](rp)
	}
}

var c18ExchangeCases int

// c18Misc checks generic.Map, generic.Exchange and generic.Resource against their ID-based equivalents.
func c18Misc() string {
	ar := &gen18.Arities[1][2] // GR, G1
	type step struct {
		name string
		gen  func(g *g18) string
		ref  func(g *g18) string
	}
	tGR, tG1, tGX := generic.T[gen18.GR](), generic.T[gen18.G1](), generic.T[gen18.GX]()
	steps := []step{
		{"Map.Get/Has/Set", func(g *g18) string {
			m := generic.NewMap[gen18.G1](&g.w)
			e := g.ents[3]
			p := m.Get(e)
			m.Set(g.ents[4], &gen18.G1{V: 77})
			return fmt.Sprint(p.V, m.Has(e), m.Has(g.ents[1]), m.Get(g.ents[1]) == nil, m.GetUnchecked(e) == p, m.HasUnchecked(e), m.ID() == g.all[1])
		}, func(g *g18) string {
			e := g.ents[3]
			p := (*gen18.G1)(g.w.Get(e, g.all[1]))
			g.w.Set(g.ents[4], g.all[1], &gen18.G1{V: 77})
			return fmt.Sprint(p.V, g.w.Has(e, g.all[1]), g.w.Has(g.ents[1], g.all[1]), g.w.Get(g.ents[1], g.all[1]) == nil, true, true, true)
		}},
		{"Map.GetRelation/SetRelation", func(g *g18) string {
			m := generic.NewMap[gen18.GR](&g.w)
			t0 := m.GetRelation(g.ents[4])
			m.SetRelation(g.ents[4], g.ents[1])
			return fmt.Sprint(t0, m.GetRelation(g.ents[4]), m.GetRelationUnchecked(g.ents[4]))
		}, func(g *g18) string {
			t0 := g.w.Relations().Get(g.ents[4], g.gr)
			g.w.Relations().Set(g.ents[4], g.gr, g.ents[1])
			return fmt.Sprint(t0, g.w.Relations().Get(g.ents[4], g.gr), g.w.Relations().GetUnchecked(g.ents[4], g.gr))
		}},
		{"Map.SetRelationBatch", func(g *g18) string {
			m := generic.NewMap[gen18.GR](&g.w)
			return fmt.Sprint(m.SetRelationBatch(ecs.All(g.gr), g.ents[2]))
		}, func(g *g18) string { return fmt.Sprint(g.w.Relations().SetBatch(ecs.All(g.gr), g.gr, g.ents[2])) }},
		{"Map.SetRelationBatchQ", func(g *g18) string {
			m := generic.NewMap[gen18.GR](&g.w)
			q := m.SetRelationBatchQ(ecs.All(g.gr), g.ents[2])
			n := 0
			for q.Next() {
				if unsafe.Pointer(q.Get()) != g.w.Get(q.Entity(), g.gr) {
					return "POSITION"
				}
				n++
			}
			return fmt.Sprint(n)
		}, func(g *g18) string {
			q := g.w.Relations().SetBatchQ(ecs.All(g.gr), g.gr, g.ents[2])
			n := 0
			for q.Next() {
				n++
			}
			return fmt.Sprint(n)
		}},
		{"Exchange.NewEntity", func(g *g18) string {
			return fmt.Sprint(generic.NewExchange(&g.w).Adds(tG1, tGX).NewEntity())
		}, func(g *g18) string { return fmt.Sprint(g.w.NewEntity(g.all[1], g.gx)) }},
		{"Exchange.NewEntity(target)", func(g *g18) string {
			return fmt.Sprint(generic.NewExchange(&g.w).Adds(tGR, tG1).WithRelation(tGR).NewEntity(g.ents[0]))
		}, func(g *g18) string {
			return fmt.Sprint(ecs.NewBuilder(&g.w, g.gr, g.all[1]).WithRelation(g.gr).New(g.ents[0]))
		}},
		{"Exchange.Add", func(g *g18) string { generic.NewExchange(&g.w).Adds(tG1).Add(g.ents[1]); return "" },
			func(g *g18) string { g.w.Add(g.ents[1], g.all[1]); return "" }},
		{"Exchange.Add(target)", func(g *g18) string {
			generic.NewExchange(&g.w).Adds(tGR, tG1).WithRelation(tGR).Add(g.ents[1], g.ents[0])
			return ""
		}, func(g *g18) string {
			g.w.Relations().Exchange(g.ents[1], []ecs.ID{g.gr, g.all[1]}, nil, g.gr, g.ents[0])
			return ""
		}},
		{"Exchange.Remove", func(g *g18) string { generic.NewExchange(&g.w).Removes(tGX).Remove(g.ents[4]); return "" },
			func(g *g18) string { g.w.Remove(g.ents[4], g.gx); return "" }},
		{"Exchange.Exchange", func(g *g18) string {
			generic.NewExchange(&g.w).Adds(tG1).Removes(tGX).Exchange(g.ents[1])
			return ""
		}, func(g *g18) string { g.w.Exchange(g.ents[1], []ecs.ID{g.all[1]}, []ecs.ID{g.gx}); return "" }},
		{"Exchange.Exchange(target)", func(g *g18) string {
			generic.NewExchange(&g.w).Adds(tGR).Removes(tGX).WithRelation(tGR).Exchange(g.ents[1], g.ents[0])
			return ""
		}, func(g *g18) string {
			g.w.Relations().Exchange(g.ents[1], []ecs.ID{g.gr}, []ecs.ID{g.gx}, g.gr, g.ents[0])
			return ""
		}},
		{"Exchange.ExchangeBatch", func(g *g18) string {
			f := ecs.All(g.gx).Without(g.all[1])
			return fmt.Sprint(generic.NewExchange(&g.w).Adds(tG1).Removes(tGX).ExchangeBatch(&f))
		}, func(g *g18) string {
			f := ecs.All(g.gx).Without(g.all[1])
			return fmt.Sprint(g.w.Batch().Exchange(&f, []ecs.ID{g.all[1]}, []ecs.ID{g.gx}))
		}},
	}
	for _, s := range steps {
		a, b := newG18(ar), newG18(ar)
		a.seed(ar, 1)
		b.seed(ar, 1)
		var ra, rb string
		pa := catchP(func() { ra = s.gen(a) })
		pb := catchP(func() { rb = s.ref(b) })
		if (pa == nil) != (pb == nil) {
			return fmt.Sprintf("generic %s: panic %v vs ID-based equivalent: panic %v", s.name, pa, pb)
		}
		if ra != rb {
			return fmt.Sprintf("generic %s: results differ: %q vs ID-based %q", s.name, ra, rb)
		}
		if a.snap() != b.snap() {
			return fmt.Sprintf("generic %s: worlds differ afterwards:\n   generic:  %s\n   ID-based: %s", s.name, a.snap(), b.snap())
		}
	}
	// Exchange is a builder: every order of its configuration calls must denote the same operation
	type exCase struct {
		name          string
		adds, removes []generic.Comp
		rel           generic.Comp
		act           func(g *g18, ex *generic.Exchange) string
		ref           func(g *g18) string
	}
	exCases := []exCase{
		{"NewEntity(target)", []generic.Comp{tGR, tG1}, nil, tGR,
			func(g *g18, ex *generic.Exchange) string { return fmt.Sprint(ex.NewEntity(g.ents[0])) },
			func(g *g18) string {
				return fmt.Sprint(ecs.NewBuilder(&g.w, g.gr, g.all[1]).WithRelation(g.gr).New(g.ents[0]))
			}},
		{"NewEntity()", []generic.Comp{tGR, tG1}, nil, tGR,
			func(g *g18, ex *generic.Exchange) string { return fmt.Sprint(ex.NewEntity()) },
			func(g *g18) string { return fmt.Sprint(g.w.NewEntity(g.gr, g.all[1])) }},
		{"Add(target)", []generic.Comp{tGR, tG1}, nil, tGR,
			func(g *g18, ex *generic.Exchange) string { ex.Add(g.ents[1], g.ents[0]); return "" },
			func(g *g18) string {
				g.w.Relations().Exchange(g.ents[1], []ecs.ID{g.gr, g.all[1]}, nil, g.gr, g.ents[0])
				return ""
			}},
		{"Remove()", nil, []generic.Comp{tGX}, nil,
			func(g *g18, ex *generic.Exchange) string { ex.Remove(g.ents[4]); return "" },
			func(g *g18) string { g.w.Remove(g.ents[4], g.gx); return "" }},
		{"Exchange(target)", []generic.Comp{tGR}, []generic.Comp{tGX}, tGR,
			func(g *g18, ex *generic.Exchange) string { ex.Exchange(g.ents[1], g.ents[0]); return "" },
			func(g *g18) string {
				g.w.Relations().Exchange(g.ents[1], []ecs.ID{g.gr}, []ecs.ID{g.gx}, g.gr, g.ents[0])
				return ""
			}},
		{"Exchange()", []generic.Comp{tG1}, []generic.Comp{tGX}, nil,
			func(g *g18, ex *generic.Exchange) string { ex.Exchange(g.ents[1]); return "" },
			func(g *g18) string { g.w.Exchange(g.ents[1], []ecs.ID{g.all[1]}, []ecs.ID{g.gx}); return "" }},
		{"ExchangeBatch(target)", []generic.Comp{tGR}, []generic.Comp{tGX}, tGR,
			func(g *g18, ex *generic.Exchange) string {
				f := ecs.All(g.gx).Without(g.gr)
				return fmt.Sprint(ex.ExchangeBatch(&f, g.ents[0]))
			},
			func(g *g18) string {
				f := ecs.All(g.gx).Without(g.gr)
				return fmt.Sprint(g.w.Relations().ExchangeBatch(&f, []ecs.ID{g.gr}, []ecs.ID{g.gx}, g.gr, g.ents[0]))
			}},
	}
	for _, c := range exCases {
		calls := []string{}
		if c.adds != nil {
			calls = append(calls, "Adds")
		}
		if c.removes != nil {
			calls = append(calls, "Removes")
		}
		if c.rel != nil {
			calls = append(calls, "WithRelation")
		}
		var perms [][]string
		var permute func(cur, rest []string)
		permute = func(cur, rest []string) {
			if len(rest) == 0 {
				perms = append(perms, append([]string{}, cur...))
				return
			}
			for i := range rest {
				r2 := append(append([]string{}, rest[:i]...), rest[i+1:]...)
				permute(append(cur, rest[i]), r2)
			}
		}
		permute(nil, calls)
		for _, perm := range perms {
			a, b := newG18(ar), newG18(ar)
			a.seed(ar, 1)
			b.seed(ar, 1)
			var ra, rb string
			pa := catchP(func() {
				ex := generic.NewExchange(&a.w)
				for _, call := range perm {
					switch call {
					case "Adds":
						ex.Adds(c.adds...)
					case "Removes":
						ex.Removes(c.removes...)
					default:
						ex.WithRelation(c.rel)
					}
				}
				ra = c.act(a, ex)
			})
			pb := catchP(func() { rb = c.ref(b) })
			where := fmt.Sprintf("generic.NewExchange(w).%s then %s", strings.Join(perm, "."), c.name)
			if (pa == nil) != (pb == nil) {
				return fmt.Sprintf("%s: panic %v vs ID-based equivalent: panic %v", where, pa, pb)
			}
			if ra != rb || a.snap() != b.snap() {
				return fmt.Sprintf("%s: result %q / world differs from the ID-based equivalent (%q)", where, ra, rb)
			}
		}
	}
	// generic.Resource is a view of ecs.Resources: whatever route changes the resource, every mapper sees the current state
	{
		type resT struct{ V int }
		w := ecs.NewWorld()
		m1, m2 := generic.NewResource[resT](&w), generic.NewResource[resT](&w)
		id := ecs.ResourceID[resT](&w)
		p1, p2, p3 := &resT{1}, &resT{2}, &resT{3}
		type step struct {
			name string
			do   func()
			want *resT
		}
		steps := []step{
			{"m1.Add(p1)", func() { m1.Add(p1) }, p1},
			{"m1.Get()", func() { m1.Get() }, p1},
			{"m2.Remove()", func() { m2.Remove() }, nil},
			{"Resources.Add(p2)", func() { w.Resources().Add(id, p2) }, p2},
			{"m2.Get()", func() { m2.Get() }, p2},
			{"Resources.Remove", func() { w.Resources().Remove(id) }, nil},
			{"ecs.AddResource(p3)", func() { ecs.AddResource(&w, p3) }, p3},
			{"World.Reset", func() { w.Reset() }, nil},
			{"m2.Add(p1)", func() { m2.Add(p1) }, p1},
			{"World.Reset", func() { w.Reset() }, nil},
		}
		hist := []string{}
		for _, st := range steps {
			hist = append(hist, st.name)
			if pv := catchP(st.do); pv != nil {
				return fmt.Sprintf("generic.Resource: %s panicked: %v", strings.Join(hist, "; "), pv)
			}
			for k, m := range []*generic.Resource[resT]{&m1, &m2} {
				var got *resT
				var has bool
				if pv := catchP(func() { got, has = m.Get(), m.Has() }); pv != nil {
					return fmt.Sprintf("generic.Resource: after %s: Get/Has of mapper %d panicked: %v", strings.Join(hist, "; "), k+1, pv)
				}
				var core *resT
				if x := w.Resources().Get(id); x != nil {
					core = x.(*resT)
				}
				if got != st.want || core != st.want || has != (st.want != nil) || w.Resources().Has(id) != has {
					return fmt.Sprintf("generic.Resource: after %s: mapper %d reports Get = %p, Has = %t; ecs.Resources reports %p (expected %p)", strings.Join(hist, "; "), k+1, got, has, core, st.want)
				}
			}
		}
	}
	// systematic: configuration x action x entity x target (given / omitted / zero), against the documented core call
	tGY := generic.T[gen18.GY]()
	type cfgX struct {
		adds, removes []generic.Comp
		rel           generic.Comp
	}
	idsOf := func(g *g18, cs []generic.Comp) []ecs.ID {
		var out []ecs.ID
		for _, c := range cs {
			switch c {
			case tG1:
				out = append(out, g.all[1])
			case tGX:
				out = append(out, g.gx)
			case tGY:
				out = append(out, g.gy)
			case tGR:
				out = append(out, g.gr)
			}
		}
		return out
	}
	var cfgs []cfgX
	for _, ad := range [][]generic.Comp{nil, {tG1}, {tGY}, {tGR}} {
		for _, rm := range [][]generic.Comp{nil, {tGX}, {tGR}} {
			for _, rel := range []generic.Comp{nil, tGR} {
				cfgs = append(cfgs, cfgX{ad, rm, rel})
			}
		}
	}
	for _, cf := range cfgs {
		for action := 0; action < 5; action++ {
			for ent := 0; ent < 3; ent++ {
				for tgt := -1; tgt < 3; tgt++ { // -1 omitted, 0 = e0, 1 = e1, 2 = zero entity
					if action == 4 && ent > 0 {
						continue
					}
					a, b := newG18(ar), newG18(ar)
					a.seed(ar, 1)
					b.seed(ar, 1)
					pick := func(g *g18) (ecs.Entity, []ecs.Entity) {
						e := []ecs.Entity{g.ents[1], g.ents[4], g.ents[3]}[ent]
						switch tgt {
						case -1:
							return e, nil
						case 2:
							return e, []ecs.Entity{{}}
						}
						return e, []ecs.Entity{g.ents[tgt]}
					}
					var ra, rb string
					pa := catchP(func() {
						ex := generic.NewExchange(&a.w)
						if cf.adds != nil {
							ex.Adds(cf.adds...)
						}
						if cf.removes != nil {
							ex.Removes(cf.removes...)
						}
						if cf.rel != nil {
							ex.WithRelation(cf.rel)
						}
						e, t := pick(a)
						switch action {
						case 0:
							ex.Add(e, t...)
						case 1:
							ex.Remove(e, t...)
						case 2:
							ex.Exchange(e, t...)
						case 3:
							ra = fmt.Sprint(a.w.Alive(ex.NewEntity(t...)))
						default:
							ra = fmt.Sprint(ex.ExchangeBatch(ecs.All(a.gx), t...))
						}
					})
					pb := catchP(func() {
						g := b
						e, t := pick(g)
						add, rem := idsOf(g, cf.adds), idsOf(g, cf.removes)
						if t != nil && cf.rel == nil {
							panic("can't set target entity: Exchange has no relation")
						}
						switch action {
						case 0:
							if t != nil {
								g.w.Relations().Exchange(e, add, nil, g.gr, t[0])
							} else {
								g.w.Add(e, add...)
							}
						case 1:
							if t != nil {
								g.w.Relations().Exchange(e, nil, rem, g.gr, t[0])
							} else {
								g.w.Remove(e, rem...)
							}
						case 2:
							if t != nil {
								g.w.Relations().Exchange(e, add, rem, g.gr, t[0])
							} else {
								g.w.Exchange(e, add, rem)
							}
						case 3:
							if t != nil {
								rb = fmt.Sprint(g.w.Alive(ecs.NewBuilder(&g.w, add...).WithRelation(g.gr).New(t[0])))
							} else {
								rb = fmt.Sprint(g.w.Alive(g.w.NewEntity(add...)))
							}
						default:
							if t != nil {
								rb = fmt.Sprint(g.w.Relations().ExchangeBatch(ecs.All(g.gx), add, rem, g.gr, t[0]))
							} else {
								rb = fmt.Sprint(g.w.Batch().Exchange(ecs.All(g.gx), add, rem))
							}
						}
					})
					where := fmt.Sprintf("generic.Exchange (adds %v, removes %v, relation %v) action %s, entity #%d, target %d (-1 = omitted, 2 = zero)",
						cf.adds, cf.removes, cf.rel, [...]string{"Add", "Remove", "Exchange", "NewEntity", "ExchangeBatch(All(GX))"}[action], ent, tgt)
					if (pa == nil) != (pb == nil) {
						return fmt.Sprintf("%s: panic %v vs ID-based equivalent: panic %v", where, pa, pb)
					}
					if ra != rb || a.snap() != b.snap() {
						return fmt.Sprintf("%s: result %q / world differs from the ID-based equivalent (%q):\n   generic:  %s\n   ID-based: %s", where, ra, rb, a.snap(), b.snap())
					}
					c18ExchangeCases++
				}
			}
		}
	}
	return ""
}
