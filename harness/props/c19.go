package props

import (
	"bufio"
	"bytes"
	"encoding/json"
	"fmt"
	"go/ast"
	"go/parser"
	"go/token"
	"os"
	"os/exec"
	"path/filepath"
	"reflect"
	"runtime"
	"strings"
	"sync"
	"sync/atomic"

	"github.com/mlange-42/arche/ecs"
	"verifharness/gen14"
	"verifharness/gen18"
	"verifharness/runner"
	"verifharness/sim"
	"verifharness/wx"
)

type c19hist struct {
	ops  []wx.Op
	hist uint64
	key  string
}

// all histories of exactly the given length (via the alphabet), with their solo transcript
func c19Histories(cfg *sim.Cfg, length int, limit int) []c19hist {
	out := []c19hist{}
	var rec func(prefix []wx.Op)
	rec = func(prefix []wx.Op) {
		if len(out) >= limit {
			return
		}
		r := sim.NewRun(cfg)
		for _, o := range prefix {
			if x := r.Apply(o); x.Fail != nil || x.Prune {
				return
			}
		}
		if len(prefix) == length {
			out = append(out, c19hist{ops: append([]wx.Op{}, prefix...), hist: r.Hist(), key: string(r.Key(nil))})
			return
		}
		for _, o := range r.Enabled() {
			rec(append(prefix, o))
		}
	}
	rec(nil)
	return out
}

func c19Cfgs() (*sim.Cfg, *sim.Cfg) {
	c1 := sim.RelCfg("c19-w1", 0, 2, 0, 1, fBld|fMove|fRet|fBRem|fBSet|fBExch|fReg|fReset, sim.OState|sim.OTranscript)
	c1.Listener = true
	c1.Oracles |= sim.OEvents
	c2 := sim.RelCfg("c19-w2", 1, 2, 0, 2, fBld|fMove|fRet|fBRem|fBSet|fBExch|fReg|fReset, sim.OState|sim.OTranscript)
	return c1.P("C19"), c2.P("C19")
}

// merges enumerates all interleavings of a steps of the first and b steps of the second history (as bit patterns).
func merges(a, b int) [][]bool {
	out := [][]bool{}
	var rec func(cur []bool, ra, rb int)
	rec = func(cur []bool, ra, rb int) {
		if ra == 0 && rb == 0 {
			out = append(out, append([]bool{}, cur...))
			return
		}
		if ra > 0 {
			rec(append(cur, true), ra-1, rb)
		}
		if rb > 0 {
			rec(append(cur, false), ra, rb-1)
		}
	}
	rec(nil, a, b)
	return out
}

func c19Interleave(rp *runner.Report) {
	c1, c2 := c19Cfgs()
	length := 3
	lim := pick(rp.Tier, 160, 700)
	h1 := c19Histories(c1, length, 100000)
	h2 := c19Histories(c2, length, 100000)
	// thin out deterministically to the limit, keeping the spread
	thin := func(h []c19hist) []c19hist {
		if len(h) <= lim {
			return h
		}
		out := []c19hist{}
		for i := 0; i < lim; i++ {
			out = append(out, h[i*len(h)/lim])
		}
		return out
	}
	total1, total2 := len(h1), len(h2)
	h1, h2 = thin(h1), thin(h2)
	if len(h1) < total1 || len(h2) < total2 {
		rp.Exhaustive = false
	}
	ms := merges(length, length)
	var execs int64
	var next int64 = -1
	var mu sync.Mutex
	reported := false
	var wg sync.WaitGroup
	for wk := 0; wk < runtime.NumCPU(); wk++ {
		wg.Add(1)
		go func() {
			defer wg.Done()
			for {
				i := int(atomic.AddInt64(&next, 1))
				if i >= len(h1) {
					return
				}
				a := &h1[i]
				for j := range h2 {
					b := &h2[j]
					for _, m := range ms {
						ra, rb := sim.NewRun(c1), sim.NewRun(c2)
						ia, ib := 0, 0
						bad := ""
						for _, first := range m {
							if first {
								if x := ra.Apply(a.ops[ia]); x.Fail != nil {
									bad = "world 1: " + x.Fail.Msg
								}
								ia++
							} else {
								if x := rb.Apply(b.ops[ib]); x.Fail != nil {
									bad = "world 2: " + x.Fail.Msg
								}
								ib++
							}
						}
						atomic.AddInt64(&execs, 1)
						if bad == "" && (ra.Hist() != a.hist || string(ra.Key(nil)) != a.key) {
							bad = "world 1 observed something different (handles, iteration order, events, return values or final state) than when its history runs alone"
						}
						if bad == "" && (rb.Hist() != b.hist || string(rb.Key(nil)) != b.key) {
							bad = "world 2 observed something different (handles, iteration order, events, return values or final state) than when its history runs alone"
						}
						if bad != "" {
							mu.Lock()
							if !reported {
								reported = true
								hist := []string{}
								ia, ib = 0, 0
								for _, first := range m {
									if first {
										hist = append(hist, "world1: "+c1.OpString(a.ops[ia]))
										ia++
									} else {
										hist = append(hist, "world2: "+c2.OpString(b.ops[ib]))
										ib++
									}
								}
								rp.Violation(&runner.ReplayFile{Scenario: "c19-interleave", Sig: "isolation:cross-talk", Msg: bad, OpsText: hist, Kind: "c19"})
							}
							mu.Unlock()
							return
						}
					}
				}
			}
		}()
	}
	wg.Wait()
	rp.States += len(h1) * len(h2)
	rp.Trans += int(execs)
	rp.Extra["interleavings"] = map[string]interface{}{"histories_world1": len(h1), "of": total1, "histories_world2": len(h2), "of2": total2, "history_length": length,
		"merge_orders_per_pair": len(ms), "merged_executions": execs, "all_merge_orders": true, "all_history_pairs_in_scope": len(h1) == total1 && len(h2) == total2}
	if len(h1) > 0 && len(h2) > 0 {
		rp.Samples = append(rp.Samples, map[string]interface{}{"world1": wx.PathStrings(c1, h1[len(h1)/2].ops), "world2": wx.PathStrings(c2, h2[len(h2)/3].ops), "merge": fmt.Sprint(ms[len(ms)/2])})
	}
	fmt.Printf("  interleavings: %d x %d histories (of %d x %d of length %d), %d merge orders each: %d merged executions\n", len(h1), len(h2), total1, total2, length, len(ms), execs)
}

// c19SharedDump: two worlds loaded from the same EntityDump object must still be independent.
func c19SharedDump(rp *runner.Report) {
	// the dump: three entities created, the middle one removed; the Entities slice has spare capacity (as after
	// deserialisation into a pre-allocated buffer)
	mk := func() *ecs.EntityDump {
		w := ecs.NewWorld()
		w.NewEntity()
		e := w.NewEntity()
		w.NewEntity()
		w.RemoveEntity(e)
		d := w.DumpEntities()
		d.Entities = append(make([]ecs.Entity, 0, 512), d.Entities...)
		d.Alive = append(make([]uint32, 0, 512), d.Alive...)
		return &d
	}
	solo := func(id string, capInc int) *sim.Cfg {
		c := sim.EntCfg(id, 6, capInc, fBNew|fBRem, sim.OState|sim.OTranscript)
		c.PreloadDump = mk
		return c.P("C19")
	}
	c1, c2 := solo("c19-dump-w1", 1), solo("c19-dump-w2", 128)
	length := 3
	h1 := c19Histories(c1, length, 100000)
	h2 := c19Histories(c2, length, 100000)
	ms := merges(length, length)
	var execs int64
	reported := false
	var mu sync.Mutex
	var wg sync.WaitGroup
	var next int64 = -1
	for wk := 0; wk < runtime.NumCPU(); wk++ {
		wg.Add(1)
		go func() {
			defer wg.Done()
			for {
				i := int(atomic.AddInt64(&next, 1))
				if i >= len(h1) {
					return
				}
				a := &h1[i]
				for j := range h2 {
					b := &h2[j]
					for _, m := range ms {
						shared := mk()
						s1, s2 := *c1, *c2
						s1.PreloadDump = func() *ecs.EntityDump { return shared }
						s2.PreloadDump = func() *ecs.EntityDump { return shared }
						ra, rb := sim.NewRun(&s1), sim.NewRun(&s2)
						ia, ib := 0, 0
						bad := ""
						for _, first := range m {
							if first {
								if x := ra.Apply(a.ops[ia]); x.Fail != nil {
									bad = "world 1: " + x.Fail.Msg
								}
								ia++
							} else {
								if x := rb.Apply(b.ops[ib]); x.Fail != nil {
									bad = "world 2: " + x.Fail.Msg
								}
								ib++
							}
						}
						if bad == "" {
							if f := ra.Check(); f != nil {
								bad = "world 1: " + f.Msg
							} else if f := rb.Check(); f != nil {
								bad = "world 2: " + f.Msg
							}
						}
						atomic.AddInt64(&execs, 1)
						if bad == "" && (ra.Hist() != a.hist || string(ra.Key(nil)) != a.key || rb.Hist() != b.hist || string(rb.Key(nil)) != b.key) {
							bad = "a world loaded from a shared dump observed something different than when it runs alone"
						}
						if bad != "" {
							mu.Lock()
							if !reported {
								reported = true
								hist := []string{"both worlds: LoadEntities(&d) with the same dump object d (three entities issued, the middle one removed)"}
								ia, ib = 0, 0
								for _, first := range m {
									if first {
										hist = append(hist, "world1: "+c1.OpString(a.ops[ia]))
										ia++
									} else {
										hist = append(hist, "world2: "+c2.OpString(b.ops[ib]))
										ib++
									}
								}
								rp.Violation(&runner.ReplayFile{Scenario: "c19-shared-dump", Sig: "isolation:shared-dump", Msg: bad, OpsText: hist, Kind: "c19"})
							}
							mu.Unlock()
							return
						}
					}
				}
			}
		}()
	}
	wg.Wait()
	rp.States += len(h1) * len(h2)
	rp.Trans += int(execs)
	rp.Extra["shared_dump"] = map[string]interface{}{"histories_world1": len(h1), "histories_world2": len(h2), "history_length": length, "merged_executions": execs}
	fmt.Printf("  shared dump: %d x %d histories, %d merge orders each: %d merged executions\n", len(h1), len(h2), len(ms), execs)
}

// c19PointerWorlds: two worlds that register different pointer-bearing component types under the same component ID, and a
// Config slice shared between NewWorld calls; all merge orders of two short scripted histories.
func c19PointerWorlds(rp *runner.Report) {
	type step func() string
	mkA := func() (w *ecs.World, steps []step) {
		world := ecs.NewWorld(ecs.NewConfig().WithCapacityIncrement(1))
		w = &world
		id := ecs.ComponentID[gen14.PC](w) // ID 0: struct{P *Obj}
		a := ecs.ComponentID[sim.CompA](w)
		var e1, e2 ecs.Entity
		read := func(e ecs.Entity) string {
			p := (*gen14.PC)(w.Get(e, id))
			if p == nil || p.P == nil {
				return "nil"
			}
			return fmt.Sprint(p.P.Canary)
		}
		steps = []step{
			func() string {
				e1 = w.NewEntityWith(ecs.Component{ID: id, Comp: &gen14.PC{P: &gen14.Obj{Canary: 11}}})
				return read(e1)
			},
			func() string {
				e2 = w.NewEntityWith(ecs.Component{ID: id, Comp: &gen14.PC{P: &gen14.Obj{Canary: 12}}})
				return read(e2)
			},
			func() string { w.Add(e1, a); return read(e1) + read(e2) },
			func() string { w.RemoveEntity(e2); return read(e1) },
		}
		return
	}
	mkB := func() (w *ecs.World, steps []step) {
		world := ecs.NewWorld(ecs.NewConfig().WithCapacityIncrement(2))
		w = &world
		id := ecs.ComponentID[gen14.IfaceC](w) // ID 0: struct{ID int; Value any}
		a := ecs.ComponentID[sim.CompA](w)
		var e1, e2 ecs.Entity
		read := func(e ecs.Entity) string {
			p := (*gen14.IfaceC)(w.Get(e, id))
			if p == nil {
				return "nil"
			}
			return fmt.Sprint(p.ID, p.Value)
		}
		steps = []step{
			func() string {
				e1 = w.NewEntityWith(ecs.Component{ID: id, Comp: &gen14.IfaceC{ID: 21, Value: "x"}})
				return read(e1)
			},
			func() string {
				e2 = w.NewEntityWith(ecs.Component{ID: id, Comp: &gen14.IfaceC{ID: 22, Value: 2.5}})
				return read(e2)
			},
			func() string { w.Add(e1, a); return read(e1) + read(e2) },
			func() string { w.Remove(e1, a); w.RemoveEntity(e2); return read(e1) },
		}
		return
	}
	solo := func(mk func() (*ecs.World, []step)) []string {
		_, st := mk()
		out := []string{}
		for _, s := range st {
			out = append(out, s())
		}
		return out
	}
	refA, refB := solo(mkA), solo(mkB)
	execs := 0
	for _, m := range merges(4, 4) {
		_, sa := mkA()
		_, sb := mkB()
		ia, ib := 0, 0
		hist := []string{}
		bad := ""
		pv := catchP(func() {
			for _, first := range m {
				if first {
					got := sa[ia]()
					hist = append(hist, fmt.Sprintf("world1 step %d -> %s", ia, got))
					if got != refA[ia] && bad == "" {
						bad = fmt.Sprintf("world 1 (component ID 0 = struct{P *Obj}) reads %q at step %d, alone it reads %q", got, ia, refA[ia])
					}
					ia++
				} else {
					got := sb[ib]()
					hist = append(hist, fmt.Sprintf("world2 step %d -> %s", ib, got))
					if got != refB[ib] && bad == "" {
						bad = fmt.Sprintf("world 2 (component ID 0 = struct{ID int; Value any}) reads %q at step %d, alone it reads %q", got, ib, refB[ib])
					}
					ib++
				}
			}
		})
		execs++
		if pv != nil && bad == "" {
			bad = fmt.Sprintf("panic: %v", pv)
		}
		if bad != "" {
			rp.Violation(&runner.ReplayFile{Scenario: "c19-pointer-worlds", Sig: "isolation:pointer-components", Msg: bad, OpsText: hist, Kind: "c19"})
			break
		}
	}
	// a Config slice re-used for several NewWorld calls
	cfgs := []ecs.Config{ecs.NewConfig().WithCapacityIncrement(8)}
	w1 := ecs.NewWorld(cfgs...)
	cfgs[0].CapacityIncrement = 64
	w2 := ecs.NewWorld(cfgs...)
	w3 := ecs.NewWorld(ecs.NewConfig().WithCapacityIncrement(64))
	caps := func(w *ecs.World) string {
		r := ecs.ComponentID[sim.CompR](w)
		t := w.NewEntity()
		ecs.NewBuilder(w, r).WithRelation(r).New(t)
		out := []int{}
		for _, n := range w.Stats().Nodes {
			out = append(out, n.Capacity)
		}
		return fmt.Sprint(out)
	}
	_ = caps(&w1)
	if c2, c3 := caps(&w2), caps(&w3); c2 != c3 {
		rp.Violation(&runner.ReplayFile{Scenario: "c19-shared-config", Sig: "isolation:config", Kind: "c19",
			Msg:     fmt.Sprintf("a world created from a Config slice that was used for another world before has table capacities %s, a world with the same settings created from a fresh Config has %s", c2, c3),
			OpsText: []string{"cfgs := []Config{NewConfig().WithCapacityIncrement(8)}", "w1 := NewWorld(cfgs...)", "cfgs[0].CapacityIncrement = 64", "w2 := NewWorld(cfgs...)", "compare with NewWorld(NewConfig().WithCapacityIncrement(64))"}})
	}
	rp.Trans += execs + 3
	rp.States += execs
	rp.Extra["pointer_component_worlds"] = map[string]interface{}{"merged_executions": execs, "steps_per_world": 4}
	fmt.Printf("  pointer-component worlds: %d merge orders of two scripted histories; shared Config slice\n", execs)
}

// c19OpenQueries: two worlds with queries (plain, registered and batch-result queries) open at the same time.
func c19OpenQueries(rp *runner.Report) {
	cfg := &sim.LockCfg{ID: "c19-open-queries", Q: 2}
	allowed := map[uint8]bool{sim.LkOpen: true, sim.LkOpenBatch: true, sim.LkNext: true, sim.LkStep: true, sim.LkCount: true, sim.LkEntityAt: true, sim.LkClose: true}
	type hist struct {
		ops []wx.Op
		key string
	}
	length := 4
	hs := []hist{}
	var rec func(prefix []wx.Op)
	rec = func(prefix []wx.Op) {
		r := cfg.New()
		for _, o := range prefix {
			if x := r.Apply(o); x.Fail != nil {
				return
			}
		}
		if len(prefix) == length {
			hs = append(hs, hist{append([]wx.Op{}, prefix...), string(r.Key(nil))})
			return
		}
		for _, o := range r.Enabled() {
			if !allowed[o.K] || (o.K == sim.LkOpen && o.A > 1) || (o.K == sim.LkStep && o.B != 2) || (o.K == sim.LkEntityAt && o.B != 0) {
				continue
			}
			// only histories that involve a batch-result query are interesting here
			rec(append(append([]wx.Op{}, prefix...), o))
		}
	}
	rec(nil)
	withBatch := hs[:0]
	for _, h := range hs {
		for _, o := range h.ops {
			if o.K == sim.LkOpenBatch {
				withBatch = append(withBatch, h)
				break
			}
		}
	}
	hs = withBatch
	lim := pick(rp.Tier, 120, 400)
	total := len(hs)
	if len(hs) > lim {
		thin := []hist{}
		for i := 0; i < lim; i++ {
			thin = append(thin, hs[i*len(hs)/lim])
		}
		hs = thin
		rp.Exhaustive = false
	}
	ms := merges(length, length)
	var execs int64
	var next int64 = -1
	var mu sync.Mutex
	reported := false
	var wg sync.WaitGroup
	for wk := 0; wk < runtime.NumCPU(); wk++ {
		wg.Add(1)
		go func() {
			defer wg.Done()
			for {
				i := int(atomic.AddInt64(&next, 1))
				if i >= len(hs) {
					return
				}
				a := &hs[i]
				for j := range hs {
					b := &hs[j]
					for _, m := range ms {
						ra, rb := cfg.New(), cfg.New()
						ia, ib := 0, 0
						bad := ""
						for _, first := range m {
							if first {
								if x := ra.Apply(a.ops[ia]); x.Fail != nil && bad == "" {
									bad = "world 1: " + x.Fail.Msg
								}
								ia++
							} else {
								if x := rb.Apply(b.ops[ib]); x.Fail != nil && bad == "" {
									bad = "world 2: " + x.Fail.Msg
								}
								ib++
							}
						}
						atomic.AddInt64(&execs, 1)
						if bad == "" && (string(ra.Key(nil)) != a.key || string(rb.Key(nil)) != b.key) {
							bad = "a world ends in a different state than when its history runs alone"
						}
						if bad != "" {
							mu.Lock()
							if !reported {
								reported = true
								hl := []string{}
								ia, ib = 0, 0
								for _, first := range m {
									if first {
										hl = append(hl, "world1: "+cfg.OpString(a.ops[ia]))
										ia++
									} else {
										hl = append(hl, "world2: "+cfg.OpString(b.ops[ib]))
										ib++
									}
								}
								rp.Violation(&runner.ReplayFile{Scenario: "c19-open-queries", Sig: "isolation:open-queries", Msg: bad, OpsText: hl, Kind: "c19"})
							}
							mu.Unlock()
							return
						}
					}
				}
			}
		}()
	}
	wg.Wait()
	rp.States += len(hs) * len(hs)
	rp.Trans += int(execs)
	rp.Extra["open_queries"] = map[string]interface{}{"histories": len(hs), "of": total, "history_length": length, "merge_orders_per_pair": len(ms), "merged_executions": execs}
	fmt.Printf("  open queries in two worlds: %d x %d histories (of %d with a batch-result query, length %d), %d merge orders each: %d merged executions\n", len(hs), len(hs), total, length, len(ms), execs)
}

// C19RaceBody is run by the -race build: the same history bodies, free-running on one goroutine per world.
func C19RaceBody(tier string) int {
	c1, c2 := c19Cfgs()
	h1 := c19Histories(c1, 3, 100000)
	h2 := c19Histories(c2, 3, 100000)
	n := pick(tier, 400, 4000)
	var wg sync.WaitGroup
	var execs int64
	for g := 0; g < 16; g++ {
		wg.Add(1)
		go func(g int) {
			defer wg.Done()
			cfg, hs := c1, h1
			if g%2 == 1 {
				cfg, hs = c2, h2
			}
			for i := g; i < len(hs) && i < n*16; i += 8 {
				r := sim.NewRun(cfg)
				for _, o := range hs[i].ops {
					r.Apply(o)
				}
				r.Check()
				atomic.AddInt64(&execs, 1)
			}
			// generic API and filter builder bodies
			for v := 0; v < 2; v++ {
				for _, nn := range []int{1, 2, 12} {
					ar := &gen18.Arities[v][nn]
					cs := c18Cases(ar)
					for ci := range cs {
						c18RunCase(ar, &cs[ci])
						atomic.AddInt64(&execs, 1)
					}
					c18FilterSeq(ar, []int{fbWith, fbQuery, fbExclusive, fbQuery})
					c18FilterSeq(ar, []int{fbWithout, fbRegister, fbQuery, fbUnregister})
				}
			}
			// first-time work done concurrently: component types never seen before in this process, of growing size, in
			// different registration orders (process-wide caches keyed by type or size would be written here)
			{
				w := ecs.NewWorld(ecs.NewConfig().WithCapacityIncrement(1))
				ids := []ecs.ID{}
				for k := 1; k <= 24; k++ {
					tp := reflect.ArrayOf(40*k+g, reflect.TypeOf(uint8(0)))
					if g%2 == 1 {
						tp = reflect.ArrayOf(k+3*g, reflect.TypeOf(&k))
					}
					id := ecs.TypeID(&w, tp)
					ids = append(ids, id)
					e := w.NewEntity(id)
					if k > 1 {
						w.Add(e, ids[k-2])
						w.Remove(e, id)
					}
					if k%5 == 0 {
						w.RemoveEntity(e)
					}
					ecs.ResourceTypeID(&w, tp)
					atomic.AddInt64(&execs, 1)
				}
				// saving and restoring a world while other worlds do the same (serialisation helpers, statistics, printing)
				for k := 0; k < 20; k++ {
					d := w.DumpEntities()
					js, err := json.Marshal(&d)
					var back ecs.EntityDump
					if err == nil {
						err = json.Unmarshal(js, &back)
					}
					if err != nil || !reflect.DeepEqual(d.Entities, back.Entities) {
						fmt.Println("RACE-BODY-ERROR: an entity dump did not survive a JSON round trip while other worlds were being saved")
					}
					w2 := ecs.NewWorld()
					w2.LoadEntities(&back)
					_ = w.Stats().String()
					_ = fmt.Sprint(w2.NewEntity())
					atomic.AddInt64(&execs, 1)
				}
			}
			// lock scenario body
			lr := (&sim.LockCfg{ID: "race", Q: 2, Probes: 1}).New()
			for _, o := range lr.Enabled() {
				lr.Apply(o)
				lr.Check()
			}
		}(g)
	}
	wg.Wait()
	fmt.Printf("RACE-BODY executions=%d goroutines=16\n", execs)
	return 0
}

func c19Race(rp *runner.Report) {
	exe := filepath.Join(runner.Root, "bin", "check_race")
	if _, err := os.Stat(exe); err != nil {
		rp.Notes = append(rp.Notes, "race build not available: "+err.Error())
		rp.Exhaustive = false
		return
	}
	cmd := exec.Command(exe, "c19race", rp.Tier)
	cmd.Env = append(os.Environ(), "GORACE=halt_on_error=0 exitcode=66")
	var out bytes.Buffer
	cmd.Stdout = &out
	cmd.Stderr = &out
	err := cmd.Run()
	txt := out.String()
	races := strings.Count(txt, "WARNING: DATA RACE")
	if strings.Contains(txt, "RACE-BODY-ERROR") {
		rp.Violation(&runner.ReplayFile{Scenario: "c19-race", Sig: "isolation:cross-talk-concurrent", Msg: "worlds driven concurrently disturbed each other: an entity dump did not survive a JSON round trip while other worlds were being saved", OpsText: []string{"see C19RaceBody"}, Kind: "c19race"})
	}
	execs := 0
	sc := bufio.NewScanner(strings.NewReader(txt))
	for sc.Scan() {
		fmt.Sscanf(sc.Text(), "RACE-BODY executions=%d", &execs)
	}
	rp.Extra["race_pass"] = map[string]interface{}{"executions": execs, "goroutines": 16, "data_races_reported": races, "exit_error": fmt.Sprint(err)}
	fmt.Printf("  free-running -race pass: %d executions on 16 goroutines (one world each), %d data races reported\n", execs, races)
	if races > 0 {
		first := txt[strings.Index(txt, "WARNING: DATA RACE"):]
		if len(first) > 3000 {
			first = first[:3000]
		}
		rp.Violation(&runner.ReplayFile{Scenario: "c19-race", Sig: "isolation:data-race", Msg: fmt.Sprintf("%d data races between goroutines driving distinct worlds", races), OpsText: strings.Split(first, "\n"), Kind: "c19race"})
	} else if err != nil || execs == 0 {
		rp.Notes = append(rp.Notes, fmt.Sprintf("race pass did not complete: %v: %s", err, tail(txt, 300)))
		rp.Exhaustive = false
	}
}

// package-level variables of the library must not be assigned outside their declaration (supplementary scan, decides nothing alone)
func c19Scan(rp *runner.Report) {
	repo := os.Getenv("VERIF_REPO")
	if repo == "" {
		repo = "/repo"
	}
	fset := token.NewFileSet()
	findings := []string{}
	vars := 0
	for _, pkg := range []string{"ecs", "generic", "filter", "listener", "ecs/event", "ecs/stats"} {
		pkgs, err := parser.ParseDir(fset, filepath.Join(repo, pkg), func(fi os.FileInfo) bool {
			return !strings.HasSuffix(fi.Name(), "_test.go") && !strings.HasPrefix(fi.Name(), "verif_hooks")
		}, 0)
		if err != nil {
			continue
		}
		for _, p := range pkgs {
			globals := map[string]bool{}
			for _, f := range p.Files {
				for _, d := range f.Decls {
					if gd, ok := d.(*ast.GenDecl); ok && gd.Tok == token.VAR {
						for _, sp := range gd.Specs {
							for _, n := range sp.(*ast.ValueSpec).Names {
								globals[n.Name] = true
								vars++
							}
						}
					}
				}
			}
			for _, f := range p.Files {
				for _, d := range f.Decls {
					fd, ok := d.(*ast.FuncDecl)
					if !ok || fd.Body == nil {
						continue
					}
					locals := map[string]bool{}
					ast.Inspect(fd, func(n ast.Node) bool {
						switch x := n.(type) {
						case *ast.AssignStmt:
							for _, l := range x.Lhs {
								if id, ok := l.(*ast.Ident); ok {
									if x.Tok == token.DEFINE {
										locals[id.Name] = true
									} else if globals[id.Name] && !locals[id.Name] && id.Obj == nil {
										findings = append(findings, fmt.Sprintf("%s: %s assigns package-level variable %s", fset.Position(x.Pos()), fd.Name.Name, id.Name))
									}
								}
							}
						}
						return true
					})
				}
			}
		}
	}
	rp.Extra["package_level_vars_scan"] = map[string]interface{}{"package_level_vars": vars, "assignments_outside_declaration": findings}
	if len(findings) > 0 {
		rp.Notes = append(rp.Notes, "package-level variables assigned in functions (supplementary scan): "+strings.Join(findings, "; "))
	}
}

func init() {
	Checks["C19"] = func(rp *runner.Report) int {
		c19Interleave(rp)
		c19SharedDump(rp)
		c19OpenQueries(rp)
		c19PointerWorlds(rp)
		c19Race(rp)
		c19Scan(rp)
		rp.NoRuns = true
		return rp.Finish("model_checking", []string{
			"interleavings are enumerated at operation granularity (all merge orders of two histories of length 3 on two worlds that register the same types in different orders); the library contains no synchronisation operations, so there are no finer scheduling points a controlled scheduler could own",
			"unsynchronised accesses to shared memory are decided by a separate free-running pass of the same history bodies under the Go race detector (happens-before based), 16 goroutines with one world each; this part is not an enumeration",
		}, map[string]interface{}{"method": "exhaustive enumeration of merge orders of pairs of histories on two real worlds, each world's transcript compared with its solo run + free-running race-detector pass"})
	}
	replayers["c19"] = func(rf *runner.ReplayFile) int {
		rp := runner.NewReport("C19", "quick")
		c19Interleave(rp)
		if len(rp.Violations) > 0 {
			return 1
		}
		return 0
	}
	replayers["c19race"] = func(rf *runner.ReplayFile) int {
		rp := runner.NewReport("C19", "quick")
		c19Race(rp)
		if len(rp.Violations) > 0 {
			return 1
		}
		return 0
	}
}
