package props

import (
	"fmt"
	"reflect"
	"unsafe"

	"github.com/mlange-42/arche/ecs"
	"github.com/mlange-42/arche/generic"
	"verifharness/runner"
	"verifharness/sim"
	"verifharness/wx"
)

type resA struct{ V int }
type resB struct{ V [2]int64 }
type resC struct{}
type resLate struct{ V int8 }
type resIface interface{ M() int }
type resImpl struct{ V int }

func (r *resImpl) M() int { return r.V }

// resource scenario: three resource types, two candidate pointers each; operations through three access paths,
// interleaved with an entity operation, an open query and Reset.
type resCfg struct {
	id      string
	fillers int // resource types registered before the three (to place them at higher IDs)
}

func (c *resCfg) Name() string { return c.id }

const (
	rsAdd    uint8 = 1 + iota // A=type, B=pointer index, C=path (0 Resources.Add, 1 generic.Resource.Add, 2 ecs.AddResource)
	rsRemove                  // A=type, C=path (0 Resources.Remove, 1 generic.Resource.Remove)
	rsEntity                  // create or remove an entity
	rsQuery                   // open / close a query
	rsReset
	rsLate        // first use of a resource type (registration + Add/Get/Remove), possibly while a query is open
	rsResetLocked // Reset while a query is open: must panic and leave the resources alone
	rsLoad        // LoadEntities into the fresh / reset world (entity state only: resources stay)
	rsLazy        // A=type: Get through a long-lived generic mapper that is used only by explicit operations (never by the oracle)
)

func (c *resCfg) OpKind(op wx.Op) string {
	return [...]string{"", "Add", "Remove", "EntityOp", "Query open/close", "Reset", "first use of a new resource type", "Reset (locked world)", "LoadEntities", "long-lived mapper Get"}[op.K]
}

func (c *resCfg) OpString(op wx.Op) string {
	tn := [...]string{"resA", "resB", "resC"}
	switch op.K {
	case rsAdd:
		return fmt.Sprintf("%s(%s, pointer #%d)", [...]string{"Resources.Add", "generic.Resource.Add", "ecs.AddResource", "long-lived generic.Resource.Add"}[op.C], tn[op.A], op.B)
	case rsRemove:
		return fmt.Sprintf("%s(%s)", [...]string{"Resources.Remove", "generic.Resource.Remove", "long-lived generic.Resource.Remove"}[op.C], tn[op.A])
	case rsLazy:
		return fmt.Sprintf("long-lived generic.Resource[%s].Get()", tn[op.A])
	}
	return c.OpKind(op)
}

type resRun struct {
	cfg     *resCfg
	w       ecs.World
	ids     [3]ecs.ResID
	ptrs    [3][2]interface{}
	present [3]int // 0 absent, 1/2 = pointer index+1
	ent     ecs.Entity
	entOps  int
	late    bool
	pristine bool // no entity created since the world was created or reset: LoadEntities is legal
	gA      generic.Resource[resA]
	gB      generic.Resource[resB]
	gC      generic.Resource[resC]
	lA      generic.Resource[resA] // used by explicit operations only: whatever a mapper remembers is not refreshed by the oracle
	lB      generic.Resource[resB]
	lC      generic.Resource[resC]
	lzSeen  [3]uint8 // what the long-lived mapper did last: 0 nothing, 1 saw absent / removed, 2/3 saw or added pointer #0/#1
	q       *ecs.Query
	outcome string
	dead    bool
}

func (c *resCfg) New() wx.Run {
	r := &resRun{cfg: c}
	r.w = ecs.NewWorld()
	// component IDs are independent of resource IDs: register some components first
	ecs.ComponentID[sim.CompA](&r.w)
	ecs.ComponentID[resB](&r.w)
	for i := 0; i < c.fillers; i++ {
		ecs.ResourceTypeID(&r.w, mkType(i))
	}
	r.ids[0] = ecs.ResourceID[resA](&r.w)
	r.ids[1] = ecs.ResourceID[resB](&r.w)
	r.ids[2] = ecs.ResourceID[resC](&r.w)
	r.ptrs = [3][2]interface{}{{&resA{1}, &resA{2}}, {&resB{}, &resB{V: [2]int64{1, 2}}}, {&resC{}, &resC{}}}
	// the generic mappers live as long as the world (as systems keep them), also across Reset
	r.gA, r.gB, r.gC = generic.NewResource[resA](&r.w), generic.NewResource[resB](&r.w), generic.NewResource[resC](&r.w)
	r.pristine = true
	r.lA, r.lB, r.lC = generic.NewResource[resA](&r.w), generic.NewResource[resB](&r.w), generic.NewResource[resC](&r.w)
	return r
}

func (r *resRun) Outcome() string { return r.outcome }

func (r *resRun) Key(buf []byte) []byte {
	buf = r.w.VerifShape(buf, ecs.VerifIdleLockPoolAbstract)
	buf = append(buf, byte(r.present[0]), byte(r.present[1]), byte(r.present[2]))
	buf = append(buf, r.lzSeen[:]...)
	// which pointer is actually stored (identity): 0 none, 1/2 the candidates, 3 anything else
	for t := 0; t < 3; t++ {
		got := r.w.Resources().Get(r.ids[t])
		switch {
		case got == nil:
			buf = append(buf, 0)
		case got == r.ptrs[t][0] && t != 2:
			buf = append(buf, 1)
		case got == r.ptrs[t][1] && t != 2:
			buf = append(buf, 2)
		case t == 2:
			buf = append(buf, 1) // zero-sized values are indistinguishable by address
		default:
			buf = append(buf, 3)
		}
	}
	if !r.ent.IsZero() {
		buf = append(buf, 'E')
	}
	buf = append(buf, byte(r.entOps))
	if r.late {
		buf = append(buf, 'L')
	}
	if r.pristine {
		buf = append(buf, 'P')
	}
	if r.q != nil {
		buf = append(buf, 'Q')
	}
	return buf
}

func (r *resRun) Enabled() []wx.Op {
	ops := []wx.Op{}
	for t := int8(0); t < 3; t++ {
		for p := int8(0); p < 2; p++ {
			for path := int8(0); path < 4; path++ {
				ops = append(ops, wx.Op{K: rsAdd, A: t, B: p, C: path})
			}
		}
		ops = append(ops, wx.Op{K: rsRemove, A: t, C: 0}, wx.Op{K: rsRemove, A: t, C: 1}, wx.Op{K: rsRemove, A: t, C: 2}, wx.Op{K: rsLazy, A: t})
	}
	if r.q == nil {
		if r.entOps < 2 {
			// one creation and one removal per epoch (generations would make the state space infinite)
			ops = append(ops, wx.Op{K: rsEntity})
		}
		ops = append(ops, wx.Op{K: rsReset})
		if r.pristine {
			ops = append(ops, wx.Op{K: rsLoad})
		}
	}
	ops = append(ops, wx.Op{K: rsQuery})
	if r.q != nil {
		ops = append(ops, wx.Op{K: rsResetLocked})
	}
	if !r.late {
		ops = append(ops, wx.Op{K: rsLate})
	}
	return ops
}

func (r *resRun) fail(sig, msg string) wx.Result {
	r.dead = true
	return wx.Result{Prune: true, Fail: &wx.Failure{Prop: "C20", Sig: sig, Msg: msg}}
}

func (r *resRun) Apply(op wx.Op) wx.Result {
	if r.dead {
		return wx.Result{Prune: true}
	}
	w := &r.w
	name := r.cfg.OpString(op)
	r.outcome = "ok"
	switch op.K {
	case rsAdd:
		t := int(op.A)
		ptr := r.ptrs[t][op.B]
		pv := catchP(func() {
			switch op.C {
			case 0:
				w.Resources().Add(r.ids[t], ptr)
			case 1:
				switch t {
				case 0:
					r.gA.Add(ptr.(*resA))
				case 1:
					r.gB.Add(ptr.(*resB))
				default:
					r.gC.Add(ptr.(*resC))
				}
			case 3:
				switch t {
				case 0:
					r.lA.Add(ptr.(*resA))
				case 1:
					r.lB.Add(ptr.(*resB))
				default:
					r.lC.Add(ptr.(*resC))
				}
			default:
				var id ecs.ResID
				switch t {
				case 0:
					id = ecs.AddResource(w, ptr.(*resA))
				case 1:
					id = ecs.AddResource(w, ptr.(*resB))
				default:
					id = ecs.AddResource(w, ptr.(*resC))
				}
				if id != r.ids[t] {
					panic("AddResource returned a different resource ID")
				}
			}
		})
		if r.present[t] != 0 {
			r.outcome = "illegal:duplicate-add"
			if pv == nil {
				return r.fail("nopanic:add-twice", name+": adding a resource that is present did not panic")
			}
		} else {
			if pv != nil {
				return r.fail("panic:add", fmt.Sprintf("%s panicked: %v", name, pv))
			}
			r.present[t] = int(op.B) + 1
			if op.C == 3 {
				r.lzSeen[t] = uint8(op.B) + 2
			}
		}
	case rsLazy:
		t := int(op.A)
		var got interface{}
		var has bool
		pv := catchP(func() {
			switch t {
			case 0:
				has = r.lA.Has()
				if p := r.lA.Get(); p != nil {
					got = p
				}
			case 1:
				has = r.lB.Has()
				if p := r.lB.Get(); p != nil {
					got = p
				}
			default:
				has = r.lC.Has()
				if p := r.lC.Get(); p != nil {
					got = p
				}
			}
		})
		if pv != nil {
			return r.fail("res:lazy-get-panic", fmt.Sprintf("%s panicked: %v", name, pv))
		}
		var want interface{}
		if r.present[t] != 0 {
			want = r.ptrs[t][r.present[t]-1]
		}
		if got != want || has != (want != nil) {
			return r.fail("res:lazy-get-stale", fmt.Sprintf("%s: a mapper that was used before (and not in between) does not return the resource that is stored now (Has = %t, pointer as stored: %t, expected present: %t)", name, has, got == want, want != nil))
		}
		r.lzSeen[t] = uint8(r.present[t]) + 1
	case rsRemove:
		t := int(op.A)
		pv := catchP(func() {
			if op.C == 0 {
				w.Resources().Remove(r.ids[t])
				return
			}
			if op.C == 2 {
				switch t {
				case 0:
					r.lA.Remove()
				case 1:
					r.lB.Remove()
				default:
					r.lC.Remove()
				}
				return
			}
			switch t {
			case 0:
				r.gA.Remove()
			case 1:
				r.gB.Remove()
			default:
				r.gC.Remove()
			}
		})
		if r.present[t] == 0 {
			r.outcome = "illegal:remove-absent"
			if pv == nil {
				return r.fail("nopanic:remove-absent", name+": removing an absent resource did not panic")
			}
		} else {
			if pv != nil {
				return r.fail("panic:remove", fmt.Sprintf("%s panicked: %v", name, pv))
			}
			r.present[t] = 0
			if op.C == 2 {
				r.lzSeen[t] = 1
			}
		}
	case rsLoad:
		src := ecs.NewWorld()
		src.NewEntity()
		d := src.DumpEntities()
		if pv := catchP(func() { w.LoadEntities(&d) }); pv != nil {
			return r.fail("panic:load", fmt.Sprintf("LoadEntities into a fresh or reset world panicked: %v", pv))
		}
		r.pristine = false
		r.entOps = 2 // no further entity operations in this epoch
	case rsEntity:
		r.pristine = false
		r.entOps++
		if r.ent.IsZero() {
			r.ent = w.NewEntity(ecs.ComponentID[sim.CompA](w))
		} else {
			w.RemoveEntity(r.ent)
			r.ent = ecs.Entity{}
		}
	case rsQuery:
		if r.q == nil {
			q := w.Query(ecs.All())
			r.q = &q
		} else {
			r.q.Close()
			r.q = nil
		}
	case rsLate:
		r.late = true
		before := len(ecs.ResourceIDs(w))
		var got interface{}
		pv := catchP(func() {
			id := ecs.ResourceID[resLate](w)
			v := &resLate{V: 3}
			w.Resources().Add(id, v)
			got = w.Resources().Get(id)
			if got != v || !w.Resources().Has(id) {
				panic("Get/Has after Add of the new resource type wrong")
			}
			w.Resources().Remove(id)
			if w.Resources().Has(id) || ecs.GetResource[resLate](w) != nil {
				panic("resource still present after Remove")
			}
		})
		if pv != nil {
			locked := ""
			if r.q != nil {
				locked = " while a query is open"
			}
			return r.fail("res:first-use", fmt.Sprintf("first use of a new resource type%s failed: %v", locked, pv))
		}
		if n := len(ecs.ResourceIDs(w)); n != before+1 {
			return r.fail("res:first-use-ids", fmt.Sprintf("ResourceIDs has %d entries after registering one more type (was %d)", n, before))
		}
	case rsResetLocked:
		r.outcome = "illegal:reset-locked"
		if pv := catchP(func() { w.Reset() }); pv == nil {
			return r.fail("nopanic:reset-locked", "Reset on a locked world did not panic")
		}
		// the state oracle compares the resources with the unchanged model
	case rsReset:
		w.Reset()
		r.pristine = true
		r.present = [3]int{}
		r.ent = ecs.Entity{}
		r.entOps = 0
	}
	return wx.Result{}
}

func (r *resRun) Check() *wx.Failure {
	if r.dead {
		return nil
	}
	w := &r.w
	bad := func(sig, msg string) *wx.Failure { return &wx.Failure{Prop: "C20", Sig: sig, Msg: msg} }
	if ecs.ResourceID[resA](w) != r.ids[0] || ecs.ResourceID[resB](w) != r.ids[1] || ecs.ResourceID[resC](w) != r.ids[2] {
		return bad("res:id-unstable", "resource IDs changed")
	}
	if got := *(*uint8)(unsafe.Pointer(&r.ids[0])); int(got) != r.cfg.fillers {
		return bad("res:id-not-independent", fmt.Sprintf("first resource type got ID %d, expected %d (independent of component IDs)", got, r.cfg.fillers))
	}
	for t := 0; t < 3; t++ {
		var want interface{}
		if r.present[t] != 0 {
			want = r.ptrs[t][r.present[t]-1]
		}
		tn := [...]string{"resA", "resB", "resC"}[t]
		if has := w.Resources().Has(r.ids[t]); has != (want != nil) {
			return bad("res:has", fmt.Sprintf("Resources.Has(%s) = %t, expected %t", tn, has, want != nil))
		}
		got := w.Resources().Get(r.ids[t])
		if want == nil {
			if got != nil {
				return bad("res:get-absent", fmt.Sprintf("Resources.Get(%s) of an absent resource is not nil", tn))
			}
		} else if got != want {
			return bad("res:get-pointer", fmt.Sprintf("Resources.Get(%s) does not return the pointer that was added", tn))
		}
		// generic.Resource and ecs.GetResource
		var g1, g2, g3 interface{}
		var has bool
		pv := catchP(func() {
			switch t {
			case 0:
				g := generic.NewResource[resA](w)
				has = g.Has() && r.gA.Has()
				if p := g.Get(); p != nil {
					g1 = p
				}
				if p := ecs.GetResource[resA](w); p != nil {
					g2 = p
				}
				if p := r.gA.Get(); p != nil {
					g3 = p
				}
			case 1:
				g := generic.NewResource[resB](w)
				has = g.Has() && r.gB.Has()
				if p := g.Get(); p != nil {
					g1 = p
				}
				if p := ecs.GetResource[resB](w); p != nil {
					g2 = p
				}
				if p := r.gB.Get(); p != nil {
					g3 = p
				}
			default:
				g := generic.NewResource[resC](w)
				has = g.Has() && r.gC.Has()
				if p := g.Get(); p != nil {
					g1 = p
				}
				if p := ecs.GetResource[resC](w); p != nil {
					g2 = p
				}
				if p := r.gC.Get(); p != nil {
					g3 = p
				}
			}
		})
		if pv != nil {
			state := "present"
			if want == nil {
				state = "absent"
			}
			return bad("res:generic-get-panic:"+state, fmt.Sprintf("generic.Resource.Get / ecs.GetResource for %s resource %s panicked: %v", state, tn, pv))
		}
		if has != (want != nil) {
			return bad("res:generic-has", fmt.Sprintf("generic.Resource.Has(%s) = %t", tn, has))
		}
		if g1 != want || g2 != want {
			return bad("res:generic-get", fmt.Sprintf("generic.Resource.Get / ecs.GetResource(%s) do not return the added pointer (or nil when absent)", tn))
		}
		if g3 != want {
			return bad("res:generic-get-stale", fmt.Sprintf("a generic.Resource mapper for %s that was created earlier does not return the pointer that is stored now (or nil when absent)", tn))
		}
	}
	if w.IsLocked() != (r.q != nil) {
		return bad("res:lock", "resource operations changed the lock state")
	}
	if !r.ent.IsZero() && !w.Alive(r.ent) {
		return bad("res:entity", "resource operations disturbed an entity")
	}
	return nil
}

// resource sweep: all resource types up to the limit; add/remove each, all other slots unaffected.
func resSweep(rp *runner.Report) {
	limit := ecs.MaskTotalBits
	w := ecs.NewWorld()
	ids := make([]ecs.ResID, limit)
	vals := make([]interface{}, limit)
	evals := 0
	viol := func(sig, msg string) {
		rp.Violation(&runner.ReplayFile{Scenario: "c20-sweep-" + buildName(), Sig: sig, Msg: msg, OpsText: []string{msg}, Kind: "c20sweep", Extra: map[string]interface{}{"build": buildName()}})
	}
	// every second type is the pointer type of its predecessor: T and *T are different resource types
	tpOf := func(i int) reflect.Type {
		if i%2 == 1 {
			return reflect.PointerTo(mkType(i - 1))
		}
		return mkType(i)
	}
	for i := 0; i < limit; i++ {
		ids[i] = ecs.ResourceTypeID(&w, tpOf(i))
		vals[i] = reflect.New(tpOf(i)).Interface()
		if int(*(*uint8)(unsafe.Pointer(&ids[i]))) != i {
			viol("res:sweep-id-dense", fmt.Sprintf("resource type number %d (%v) got ID %d", i, tpOf(i), *(*uint8)(unsafe.Pointer(&ids[i]))))
			return
		}
	}
	present := make([]bool, limit)
	check := func(where string) (ok bool) {
		defer func() {
			if x := recover(); x != nil {
				viol("res:sweep-panic", fmt.Sprintf("%s: Has/Get panicked: %v", where, x))
				ok = false
			}
		}()
		for k := 0; k < limit; k++ {
			evals++
			if w.Resources().Has(ids[k]) != present[k] {
				viol("res:sweep-has", fmt.Sprintf("%s: Has(resource %d) = %t", where, k, !present[k]))
				return false
			}
			g := w.Resources().Get(ids[k])
			if present[k] && g != vals[k] || !present[k] && g != nil {
				viol("res:sweep-get", fmt.Sprintf("%s: Get(resource %d) wrong", where, k))
				return false
			}
		}
		return true
	}
	for i := 0; i < limit; i++ {
		if pv := catchP(func() { w.Resources().Add(ids[i], vals[i]) }); pv != nil {
			viol("res:sweep-add-panic", fmt.Sprintf("adding resource number %d of %d panicked: %v", i, limit, pv))
			return
		}
		present[i] = true
		if !check(fmt.Sprintf("after adding resource %d", i)) {
			return
		}
	}
	for i := 0; i < limit; i += 3 {
		if pv := catchP(func() { w.Resources().Remove(ids[i]) }); pv != nil {
			viol("res:sweep-remove-panic", fmt.Sprintf("removing resource number %d panicked: %v", i, pv))
			return
		}
		present[i] = false
		if !check(fmt.Sprintf("after removing resource %d", i)) {
			return
		}
	}
	w.Reset()
	for i := range present {
		present[i] = false
	}
	if !check("after Reset") {
		return
	}
	for i := 0; i < limit; i++ {
		if ecs.ResourceTypeID(&w, tpOf(i)) != ids[i] {
			viol("res:sweep-id", "resource ID changed by Reset")
			return
		}
	}
	// typed access paths with T and *T side by side
	if pv := catchP(func() {
		w2 := ecs.NewWorld()
		a, pa := &resA{V: 5}, &resA{V: 6}
		idA := ecs.AddResource(&w2, a)
		idP := ecs.AddResource(&w2, &pa) // a resource of type *resA
		if idA == idP {
			panic("resA and *resA share a resource ID")
		}
		gp := generic.NewResource[*resA](&w2)
		if ecs.GetResource[resA](&w2) != a || ecs.GetResource[*resA](&w2) != &pa || gp.Get() != &pa || !gp.Has() {
			panic("Get returns the wrong value for resA / *resA")
		}
		gp.Remove()
		if gp.Has() || !w2.Resources().Has(idA) || ecs.GetResource[resA](&w2) != a {
			panic("removing the *resA resource disturbed the resA resource")
		}
		gp.Add(&pa)
		w2.Resources().Remove(idA)
		if !gp.Has() || gp.Get() != &pa || w2.Resources().Has(idA) {
			panic("removing the resA resource disturbed the *resA resource")
		}
		// an interface type as resource type: the ID is that of the interface type, whatever the dynamic type of the value
		var iv resIface = &resImpl{V: 9}
		idI := ecs.AddResource[resIface](&w2, &iv)
		if idI != ecs.ResourceID[resIface](&w2) || idI == ecs.ResourceID[resImpl](&w2) || idI == ecs.ResourceID[*resImpl](&w2) {
			panic("AddResource of an interface-typed resource used another ID than ResourceID of that interface type")
		}
		if ecs.GetResource[resIface](&w2) != &iv || !w2.Resources().Has(idI) || w2.Resources().Has(ecs.ResourceID[*resImpl](&w2)) {
			panic("interface-typed resource not found under its own type (or found under the dynamic type)")
		}
		gi := generic.NewResource[resIface](&w2)
		if gi.Get() != &iv {
			panic("generic.Resource of the interface type does not return the added value")
		}
	}); pv != nil {
		viol("res:pointer-typed", fmt.Sprintf("resource types resA and *resA side by side: %v", pv))
		return
	}
	rp.Trans += evals
	rp.Extra["resource_sweep_"+buildName()] = map[string]interface{}{"resource_types": limit, "checks": evals}
	fmt.Printf("  resource sweep (%s build): %d types, %d checks\n", buildName(), limit, evals)
}

// highResFillers places the three resource types across a mask-word boundary (default build: IDs 62, 63, 64; tiny: 60, 61, 62).
func highResFillers() int {
	if IsTiny() {
		return 60
	}
	return 62
}

func init() {
	jobs := func(tier string) []runner.Job {
		return []runner.Job{
			job(scAny(&resCfg{id: "c20-res-ids0"}), 0, 2),
			job(scAny(&resCfg{id: "c20-res-high-ids", fillers: highResFillers()}), 0, 1),
		}
	}
	jobs("quick")
	part := func(rp *runner.Report) {
		rp.RunJobs(jobs(rp.Tier), runner.Budget(rp.Tier, 40, 300), func(f *wx.Failure, _ string) bool { return true })
		resSweep(rp)
	}
	TinyParts["C20"] = part
	Checks["C20"] = func(rp *runner.Report) int {
		part(rp)
		mergeTiny(rp)
		return rp.Finish("model_checking", []string{
			"three resource types with two candidate pointers each, all three access paths (Resources, generic.Resource, AddResource/GetResource), one entity, one query, Reset: explored to fixpoint; all resource IDs up to the limit by a linear sweep",
		}, map[string]interface{}{"method": "explicit-state BFS to fixpoint over resource/lock/entity states of the real World vs a map model + linear sweep over all resource IDs, both builds"})
	}
	replayers["c20sweep"] = func(rf *runner.ReplayFile) int {
		rp := runner.NewReport("C20", "quick")
		resSweep(rp)
		if len(rp.Violations) > 0 {
			return 1
		}
		return 0
	}
}
