package props

import (
	"verifharness/runner"
	"verifharness/sim"
	"verifharness/wx"
)

func scAny(s wx.Scenario) wx.Scenario {
	if x, ok := scenarios[s.Name()]; ok {
		return x
	}
	return reg(s)
}

func init() {
	// ------------------------------------------------------------------ C15 Reset == fresh world
	wxCheck("C15", 90, 900, func(tier string) []runner.Job {
		pair := func(id string, base *sim.Cfg) wx.Scenario {
			base.ID = id + "/base"
			return scAny(&sim.PairCfg{ID: id, Base: base.P("C15"), Prop: "C15"})
		}
		withL := func(c *sim.Cfg) *sim.Cfg {
			c.Listener = true
			c.Oracles |= sim.OEvents
			return c
		}
		return []runner.Job{
			job(pair("c15-rel-k3-any-life", sim.RelCfg("", 0, 3, 0, 8, fBld|fMove|fRet|fReg, oBasic)), pick(tier, 6, 8), 3),
			job(pair("c15-rel-k3-any-cap1-batch", sim.RelCfg("", 0, 3, 0, 1, fBld|fBNew|fBRem|fBSet|fReg, oBasic)), pick(tier, 5, 7), 2),
			job(pair("c15-rel-k4-1p-life", sim.RelCfg("", 0, 4, 1, 8, fBld|fMove|fRet|fReg, oBasic)), pick(tier, 7, 9), 2),
			job(pair("c15-rel2-k3-events", withL(sim.Rel2Cfg("", 3, 0, 8, fBld|fRel|fRet, oBasic))), pick(tier, 5, 7), 2),
			job(pair("c15-rel-k3-values", sim.RelCfg("", 0, 3, 0, 8, fBld|fVal|fBNew, oBasic)), pick(tier, 5, 7), 2),
			job(pair("c15-core-k3-cap1", sim.CoreCfg("", 3, 1, nil, fMove|fBNew|fBExch|fReg|fVal, oBasic)), pick(tier, 5, 7), 2),
			job(pair("c15-ent-k5-cap1", sim.EntCfg("", 5, 1, fBNew|fBRem, oBasic)), pick(tier, 8, 12), 2),
			job(pair("c15-rel-k3-two-registrations", func() *sim.Cfg {
				c := sim.RelCfg("", 0, 3, 0, 8, fBld|fReg, oBasic)
				c.MaxRegs = 2
				return c
			}()), pick(tier, 7, 9), 2),
			// Reset with exactly / almost a full page (32) of relation tables in one node, and of graph nodes
			job(pair("c15-boundary-31-tables", sim.BoundaryTablesNCfg("", 31, 2, fBld|fRet, oBasic)), pick(tier, 3, 4), 0.5),
			job(pair("c15-boundary-32-tables", sim.BoundaryTablesNCfg("", 32, 2, fBld|fRet, oBasic)), pick(tier, 3, 4), 0.5),
			job(pair("c15-boundary-64-tables", sim.BoundaryTablesNCfg("", 62, 3, fBld|fRet, oBasic)), pick(tier, 3, 4), 0.5),
			job(pair("c15-boundary-31-nodes", sim.BoundaryNodesNCfg("", 31, 2, fMove, oBasic)), pick(tier, 3, 4), 0.5),
			job(pair("c15-boundary-32-nodes", sim.BoundaryNodesNCfg("", 32, 2, fMove, oBasic)), pick(tier, 3, 4), 0.5),
		}
	}, func(f *wx.Failure, _ string) bool { return true })

	// ------------------------------------------------------------------ C17 dump / load
	wxCheck("C17", 60, 600, func(tier string) []runner.Job {
		pair := func(id string, base *sim.Cfg) wx.Scenario {
			base.ID = id + "/base"
			return scAny(&sim.PairCfg{ID: id, Base: base.P("C17"), Prop: "C17", Load: true})
		}
		return []runner.Job{
			job(pair("c17-ent-k5-cap1", sim.EntCfg("", 5, 1, fBNew|fBRem, oBasic)), pick(tier, 9, 14), 3),
			job(pair("c17-ent-k6-cap2", sim.EntCfg("", 6, 2, fBNew, oBasic)), pick(tier, 8, 12), 2),
			job(pair("c17-ent-k4-cap128-reset", sim.EntCfg("", 4, 128, fBNew|fBRem|fReset, oBasic)), pick(tier, 8, 12), 1),
			job(pair("c17-boundary-64-entities", sim.BoundaryEntitiesCfg("", 62, 4, 128, fBNew|fBRem, oBasic)), pick(tier, 4, 5), 1),
			job(pair("c17-rel-k4-components", sim.RelCfg("", 0, 4, 0, 2, fBld|fMove|fBNew, oBasic)), pick(tier, 6, 8), 2),
			job(pair("c17-core-k3-components", sim.CoreCfg("", 3, 1, nil, fMove|fBNew|fBRem, oBasic)), pick(tier, 5, 7), 1),
		}
	}, func(f *wx.Failure, _ string) bool { return true })
}
