// Package props defines, per property, the portfolio of explorations that decides it.
package props

import (
	"encoding/json"
	"os/exec"
	"path/filepath"
	"strings"

	"fmt"
	"github.com/mlange-42/arche/ecs"
	"os"
	"sort"

	"verifharness/runner"
	"verifharness/sim"
	"verifharness/wx"
)

// Checks maps property ids to check functions (returning the exit code).
var Checks = map[string]func(rp *runner.Report) int{}

var scenarios = map[string]wx.Scenario{}

func reg(sc wx.Scenario) wx.Scenario {
	if _, dup := scenarios[sc.Name()]; dup {
		panic("duplicate scenario id " + sc.Name())
	}
	scenarios[sc.Name()] = sc
	return sc
}

// Scenario looks a scenario up by id.
func Scenario(id string) wx.Scenario { return scenarios[id] }

// ScenarioIDs lists all scenario ids.
func ScenarioIDs() []string {
	ids := []string{}
	for k := range scenarios {
		ids = append(ids, k)
	}
	sort.Strings(ids)
	return ids
}

// Replay re-executes a stored counterexample without the explorer.
func Replay(path string) int {
	b, err := os.ReadFile(path)
	if err != nil {
		fmt.Fprintln(os.Stderr, err)
		return 2
	}
	var rf runner.ReplayFile
	if err := json.Unmarshal(b, &rf); err != nil {
		fmt.Fprintln(os.Stderr, err)
		return 2
	}
	// counterexamples found in the `tiny` build are replayed by the tiny binary
	tiny := strings.Contains(rf.Scenario, "tiny")
	if b, ok := rf.Extra["build"].(string); ok && b == "tiny" {
		tiny = true
	}
	if tiny && !IsTiny() {
		exe := filepath.Join(runner.Root, "bin", "check_tiny")
		cmd := exec.Command(exe, "replay", path)
		cmd.Stdout, cmd.Stderr = os.Stdout, os.Stderr
		if err := cmd.Run(); err != nil {
			if ee, ok := err.(*exec.ExitError); ok {
				return ee.ExitCode()
			}
			return 2
		}
		return 0
	}
	if h, ok := replayers[rf.Kind]; ok && rf.Kind != "wx" {
		return h(&rf)
	}
	sc := Scenario(rf.Scenario)
	if sc == nil {
		fmt.Fprintln(os.Stderr, "unknown scenario", rf.Scenario)
		return 2
	}
	fmt.Printf("replaying %d operations of scenario %s\n", len(rf.Ops), rf.Scenario)
	for i, s := range wx.PathStrings(sc, rf.Ops) {
		fmt.Printf("  %2d. %s\n", i+1, s)
	}
	_, f, at := wx.ReplayFull(sc, rf.Ops, Accepts[rf.Property])
	if f == nil {
		fmt.Println("no failure: the history passes all oracles")
		return 0
	}
	fmt.Printf("FAILS at operation %d: [%s] %s\n  %s\n", at+1, f.Prop, f.Sig, f.Msg)
	fmt.Printf("VIOLATION property=%s replay=%s\n", rf.Property, path)
	return 1
}

var replayers = map[string]func(rf *runner.ReplayFile) int{}

var _ = sim.Std

// ShapeSelfTest compares the struct definitions of the library's internal types (by reflection) with the list of fields
// the canonical state dump declares as covered or deliberately excluded. A new field must not silently drop out of the state key.
func ShapeSelfTest() string {
	declared := ecs.VerifShapeFields()
	actual := ecs.VerifStructFields()
	for tp, fields := range actual {
		have := map[string]bool{}
		for _, d := range declared[tp] {
			name := d
			for i := range d {
				if d[i] == ':' {
					name = d[:i]
					break
				}
			}
			have[name] = true
		}
		for _, f := range fields {
			if !have[f] {
				return fmt.Sprintf("field %s.%s is not declared in VerifShapeFields", tp, f)
			}
		}
	}
	return ""
}

// rerunCheck replays a failure that has no operation list (the checking process panicked or was aborted by the runtime):
// the quick check of that property is run again in a child process; its exit status is the verdict.
func rerunCheck(rf *runner.ReplayFile) int {
	prop := rf.Property
	if p, ok := rf.Extra["property"].(string); ok && p != "" {
		prop = p
	}
	self, err := os.Executable()
	if err != nil || prop == "" {
		fmt.Fprintln(os.Stderr, "can not re-run the check of this replay file")
		return 2
	}
	fmt.Printf("re-running the quick check of %s\n", prop)
	cmd := exec.Command(self, prop, "quick")
	cmd.Stdout, cmd.Stderr = os.Stdout, os.Stderr
	if err := cmd.Run(); err != nil {
		if ee, ok := err.(*exec.ExitError); ok {
			return ee.ExitCode()
		}
		return 2
	}
	fmt.Println("no failure")
	return 0
}

func init() {
	replayers["crash"] = rerunCheck
	replayers["panic"] = rerunCheck
}
