package props

import (
	"verifharness/sim"
)

// short names of feature groups
const (
	fMove  = sim.FMove
	fRel   = sim.FRel
	fRet   = sim.FRetarget
	fRelX  = sim.FRelX
	fBRem  = sim.FBRem
	fBExch = sim.FBExch
	fBSet  = sim.FBSet
	fReg   = sim.FReg
	fReset = sim.FReset
	fVal   = sim.FVal
	fIll   = sim.FIllegal
	fQ     = sim.FQ
	fBNew  = sim.FBNew
	fBld   = sim.FBuilder
	fPlain = sim.FPlainToo
)

func init() {
	// ad-hoc scenarios for experiments
	reg(sim.RelCfg("x-rel-life-any-k4", 0, 4, 0, 8, fBld|fMove|fRet, sim.OBasic))
	reg(sim.RelCfg("x-rel-life-1p-k4", 0, 4, 1, 8, fBld|fMove|fRet, sim.OBasic))
	reg(sim.RelCfg("x-rel-cache-any-k4", 0, 4, 0, 8, fBld|fMove|fReg, sim.OBasic))
	reg(sim.RelCfg("x-rel-batch-any-k4", 0, 4, 0, 8, fBld|fMove|fReg|fBRem|fBSet, sim.OBasic))
	reg(sim.RelCfg("x-rel-broad-k3", 0, 3, 0, 1, fBld|fMove|fRel|fRet|fRelX|fBRem|fBExch|fBSet|fReg|fReset|fIll|fQ|fBNew, sim.OBasic))
	reg(sim.EntCfg("x-ent-k5", 5, 1, fBNew|fBRem|fReset, sim.OBasic))
	reg(sim.BoundaryTablesCfg("x-b-tables", 2, fMove|fRet|fBRem|fBSet|fReg, sim.OBasic))
	reg(sim.BoundaryNodesCfg("x-b-nodes", 1, fMove|fRel|fReg|fBExch, sim.OBasic))
	reg(sim.BoundaryEntitiesCfg("x-b-ent64", 62, 4, 128, fRet|fBNew|fBRem, sim.OBasic))
	reg(sim.BoundaryEntitiesCfg("x-b-ent128", 124, 4, 128, fRet|fBNew|fBRem, sim.OBasic))
}
