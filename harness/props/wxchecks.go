package props

import (
	"fmt"
	"github.com/mlange-42/arche/ecs"
	"strings"

	"verifharness/runner"
	"verifharness/sim"
	"verifharness/wx"
)

var wxAssumptions = []string{
	"scope bounds: at most K entity handles per epoch, the component/filter menus of each scenario, value domain of a few tokens per component",
	"states are merged when the canonical dump of the complete world state (hook VerifShape) and the harness state are equal; the implementation is assumed to be a deterministic function of that state (checked by the replay guard, property C13)",
	"the reference model encodes the documented behaviour; operations whose outcome the documentation leaves open are not asserted and their branches are pruned",
	"scenarios that did not reach a fixpoint are exhaustive only up to the completed depth reported per run",
}

type acceptFn = func(f *wx.Failure, lastKind string) bool

func acceptProps(ps ...string) acceptFn {
	return func(f *wx.Failure, _ string) bool {
		if f.Prop == "" {
			return true
		}
		for _, p := range ps {
			if p == f.Prop {
				return true
			}
		}
		return false
	}
}

func isBatchKind(k string) bool {
	switch k {
	case "Builder.NewBatch", "Builder.NewBatchQ", "Batch.RemoveEntities", "Batch.Add", "Batch.Remove", "Batch.Exchange", "Batch.SetRelation",
		"Relations.ExchangeBatch", "Batch.AddQ", "Batch.RemoveQ", "Batch.ExchangeQ", "Batch.SetRelationQ", "Relations.ExchangeBatchQ":
		return true
	}
	return false
}

func job(sc wx.Scenario, depth int, weight float64) runner.Job {
	return runner.Job{Sc: sc, MaxDepth: depth, Weight: weight}
}

// featurePairs generates one relation scenario per pair of feature groups (thorough tier): the systematic part of the
// portfolio of sharp alphabets (§1 of DESIGN.md). Each is explored to the given depth within its share of the budget.
func featurePairs(prop, prefix string, base uint32, k, depth int, tweak func(c *sim.Cfg)) []runner.Job {
	groups := []struct {
		name string
		f    uint32
	}{
		{"move", fMove}, {"rel", fRel}, {"retarget", fRet}, {"relx", fRelX}, {"brem", fBRem},
		{"bexch", fBExch | fQ}, {"bset", fBSet | fQ}, {"reset", fReset}, {"bnew", fBNew},
	}
	js := []runner.Job{}
	for i := 0; i < len(groups); i++ {
		for j := i + 1; j < len(groups); j++ {
			c := sim.RelCfg(fmt.Sprintf("%s-pair-%s-%s", prefix, groups[i].name, groups[j].name), 0, k, 0, 8, base|groups[i].f|groups[j].f, oBasic).P(prop)
			if tweak != nil {
				tweak(c)
			}
			js = append(js, job(sc(c), depth, 0.5))
		}
	}
	return js
}

func pick(tier string, quick, thorough int) int {
	if tier == "thorough" {
		return thorough
	}
	return quick
}

// ExtraParts are stand-alone enumerations that belong to a wx-based check (run after its portfolio).
var ExtraParts = map[string]func(rp *runner.Report){}

// Accepts holds the accept function of every wx-based check (for ad-hoc exploration).
var Accepts = map[string]func(f *wx.Failure, lastKind string) bool{}

func wxCheck(prop string, quickS, thoroughS int, jobs func(tier string) []runner.Job, accept acceptFn) {
	Accepts[prop] = accept
	// make sure every scenario is registered for replay, for both tiers
	for _, tier := range []string{"quick", "thorough"} {
		for _, j := range jobs(tier) {
			var c *sim.Cfg
			switch x := j.Sc.(type) {
			case *sim.Cfg:
				c = x
			case *sim.PairCfg:
				c = x.Base
			case *sim.SubCfg:
				c = x.Base
			}
			if c != nil && c.Prefer == nil {
				c.Prefer = func(f *wx.Failure) bool { return accept(f, "") }
			}
		}
	}
	Checks[prop] = func(rp *runner.Report) int {
		rp.RunJobs(jobs(rp.Tier), runner.Budget(rp.Tier, quickS, thoroughS), accept)
		if ExtraParts[prop] != nil {
			ExtraParts[prop](rp)
		}
		if TinyParts[prop] != nil {
			mergeTiny(rp)
		}
		return rp.Finish("model_checking", wxAssumptions, map[string]interface{}{
			"method": "explicit-state breadth-first search over the real ecs.World in lock-step with a reference model; successors by replay on fresh worlds; state oracles on every state, transition oracles on every transition",
		})
	}
}

// scenario cache: portfolios are built twice (registration + run)
func sc(c *sim.Cfg) wx.Scenario {
	if s, ok := scenarios[c.ID]; ok {
		return s
	}
	return reg(c)
}

const (
	oBasic = sim.OBasic
	oDeep  = sim.OBasic | sim.OIter
)

func init() {
	// ------------------------------------------------------------------ C01 component data integrity
	wxCheck("C01", 75, 900, func(tier string) []runner.Job {
		all := fMove | fVal | fBNew | fBExch | fBRem | fReset | fQ
		js := []runner.Job{
			job(sc(sim.CoreCfg("c01-core-k3-cap1-broad", 3, 1, nil, all, oBasic).P("C01")), pick(tier, 5, 7), 2),
			job(sc(sim.CoreCfg("c01-core-k4-cap2-move-val", 4, 2, nil, fMove|fVal, oBasic).P("C01")), pick(tier, 5, 7), 2),
			job(sc(sim.CoreCfg("c01-core-k4-cap1-move-batch", 4, 1, nil, fMove|fBExch|fBNew|fQ, oBasic).P("C01")), pick(tier, 5, 7), 2),
			job(sc(sim.CoreCfg("c01-core-k4-cap1-batch-reset", 4, 1, nil, fBNew|fBExch|fBRem|fReset|fVal, oBasic).P("C01")), pick(tier, 5, 7), 1),
			job(sc(sim.CoreCfg("c01-core-k3-ids-15-16-17", 3, 1, []int{15, 0, 0, 0}, fMove|fVal|fBExch, oBasic).P("C01")), pick(tier, 5, 6), 1),
			job(sc(sim.CoreCfg("c01-core-k3-ids-63-64-128", 3, 1, []int{63, 0, 63, 0}, fMove|fVal|fBExch, oBasic).P("C01")), pick(tier, 5, 6), 1),
			job(sc(sim.CoreCfg("c01-core-k3-ids-0-191-255", 3, 128, []int{0, 190, 62, 0}, fMove|fVal|fBExch, oBasic).P("C01")), pick(tier, 4, 6), 1),
			job(sc(sim.RelCfg("c01-rel-k3-cap1-storage", 0, 3, 0, 1, fBld|fMove|fRel|fRet|fVal|fBSet|fBExch|fReset, oBasic).P("C01")), pick(tier, 5, 7), 2),
			job(sc(sim.RelCfg("c01-rel-k4-cap2-retarget-val", 0, 4, 2, 2, fBld|fMove|fRet|fVal, oBasic).P("C01")), pick(tier, 5, 8), 1),
			// boundary seeds: 33 tables in a node, 34 nodes, entity IDs around 64 and 128
			job(sc(sim.BoundaryTablesCfg("c01-boundary-33-tables", 2, fMove|fRet|fVal|fBSet, oBasic).P("C01")), pick(tier, 2, 3), 1),
			job(sc(sim.BoundaryNodesCfg("c01-boundary-34-nodes", 1, fMove|fRel|fVal|fBExch, oBasic).P("C01")), pick(tier, 2, 3), 1),
			job(sc(sim.BoundaryEntitiesCfg("c01-boundary-64-entities-cap1", 62, 4, 1, fRet|fMove|fBNew|fVal, oBasic).P("C01")), pick(tier, 3, 4), 0.5),
			job(sc(sim.BoundaryEntitiesCfg("c01-boundary-128-entities", 124, 4, 128, fRet|fMove|fBNew|fVal, oBasic).P("C01")), pick(tier, 3, 4), 0.5),
			// the accessors of open queries hand out copies (Ids) and pointers (Get): used and scribbled over at every position
			job(sc(sim.CoreCfg("c01-core-k3-query-accessors", 3, 2, nil, fMove|fVal, oDeep).P("C01")), pick(tier, 3, 4), 1),
			// a relation capacity increment that differs from the capacity increment of plain tables
			job(sc(func() *sim.Cfg {
				c := sim.RelCfg("c01-rel-k4-relcap1-cap8-storage", 0, 4, 0, 8, fBld|fMove|fRet|fVal|fBSet, oBasic)
				c.RelCapInc = 1
				return c.P("C01")
			}()), pick(tier, 4, 6), 1),
			job(sc(func() *sim.Cfg {
				c := sim.RelCfg("c01-rel-k4-relcap3-cap1-storage", 0, 4, 0, 1, fBld|fMove|fRet|fVal|fBNew, oBasic)
				c.RelCapInc = 3
				return c.P("C01")
			}()), pick(tier, 4, 6), 1),
			// values as seen from inside a listener: when an event is delivered the components hold what the operation wrote
			job(sc(func() *sim.Cfg {
				c := sim.RelCfg("c01-rel-k3-values-seen-by-listener", 0, 3, 0, 8, fBld|fVal|fMove|fRet|fBNew, oBasic|sim.OEvents)
				c.Listener = true
				return c.P("C01")
			}()), pick(tier, 4, 6), 1),
			job(sc(func() *sim.Cfg {
				c := sim.CoreCfg("c01-core-k3-values-seen-by-listener", 3, 1, nil, fVal|fMove|fBNew|fBExch, oBasic|sim.OEvents)
				c.Listener = true
				return c.P("C01")
			}()), pick(tier, 4, 5), 1),
		}
		return js
	}, func(f *wx.Failure, _ string) bool {
		return f.Prop == "" || f.Prop == "C01" || strings.HasSuffix(f.Sig, ":early-values")
	})

	// C01 names both mask-width builds: a part of the portfolio also runs in the `tiny` build (64 bit masks)
	c01tiny := func(tier string) []runner.Job {
		return []runner.Job{
			job(sc(sim.CoreCfg("c01-tiny-core-k3-cap1-broad", 3, 1, nil, fMove|fVal|fBNew|fBExch|fBRem|fReset|fQ, oBasic).P("C01")), pick(tier, 4, 6), 2),
			job(sc(sim.CoreCfg("c01-tiny-core-k3-ids-15-16-17", 3, 1, []int{15, 0, 0, 0}, fMove|fVal|fBExch, oBasic).P("C01")), pick(tier, 4, 6), 1),
			job(sc(sim.CoreCfg("c01-tiny-core-k3-ids-31-32-63", 3, 2, []int{31, 0, 29, 0}, fMove|fVal|fBExch, oBasic).P("C01")), pick(tier, 4, 6), 1),
			job(sc(sim.RelCfg("c01-tiny-rel-k3-cap1-storage", 0, 3, 0, 1, fBld|fMove|fRel|fRet|fVal|fBSet|fBExch|fReset, oBasic).P("C01")), pick(tier, 4, 6), 2),
		}
	}
	c01tiny("quick")
	TinyParts["C01"] = func(rp *runner.Report) {
		rp.RunJobs(c01tiny(rp.Tier), runner.Budget(rp.Tier, 25, 240), acceptProps("C01"))
	}

	// ------------------------------------------------------------------ C02 entity handles
	wxCheck("C02", 60, 600, func(tier string) []runner.Job {
		return []runner.Job{
			job(sc(sim.EntCfg("c02-ent-k"+itoa(pick(tier, 6, 7))+"-cap1", pick(tier, 6, 7), 1, fBNew|fBRem|fReset, oBasic).P("C02")), 0, 4),
			job(sc(sim.EntCfg("c02-ent-k5-cap2-illegal", 5, 2, fBNew|fBRem|fReset|fIll, oBasic).P("C02")), 0, 1),
			job(sc(sim.CoreCfg("c02-core-k4-cap1", 4, 1, nil, fMove|fBNew|fBRem|fReset|fBExch, oBasic).P("C02")), pick(tier, 5, 7), 2),
			job(sc(sim.RelCfg("c02-rel-k4-cap1", 0, 4, 0, 1, fBld|fMove|fRet|fBRem|fReset|fBNew|fIll, oBasic).P("C02")), pick(tier, 5, 7), 2),
			job(sc(sim.BoundaryEntitiesCfg("c02-boundary-64-entities", 62, 4, 128, fBNew|fBRem|fReset, oBasic).P("C02")), pick(tier, 4, 5), 0.5),
			job(sc(sim.BoundaryEntitiesCfg("c02-boundary-64-entities-cap1", 62, 4, 1, fBNew|fBRem|fRet, oBasic).P("C02")), pick(tier, 3, 4), 0.5),
			job(sc(sim.BoundaryEntitiesCfg("c02-boundary-128-entities", 124, 4, 128, fBNew|fBRem|fReset, oBasic).P("C02")), pick(tier, 4, 5), 0.5),
			// removal through an exclusive filter with component IDs in all four mask words
			job(sc(func() *sim.Cfg {
				c := sim.CoreCfg("c02-core-k3-ids-0-64-128-192-exclusive-removal", 3, 8, []int{0, 63, 63, 63}, fMove|fBRem, oBasic)
				c.BatchRefs = []int{0, 1, 4}
				return c.P("C02")
			}()), pick(tier, 4, 5), 0.5),
			// handles across DumpEntities / LoadEntities (lock-step pair, also decided by C17)
			job(scAny(&sim.PairCfg{ID: "c02-ent-k5-dumpload", Base: func() *sim.Cfg {
				c := sim.EntCfg("c02-ent-k5-dumpload/base", 5, 1, fBNew|fBRem, oBasic)
				return c.P("C02")
			}(), Prop: "C02", Load: true}), pick(tier, 7, 10), 1),
			job(scAny(&sim.PairCfg{ID: "c02-ent-k4-dumpload-reset", Base: func() *sim.Cfg {
				c := sim.EntCfg("c02-ent-k4-dumpload-reset/base", 4, 1, fBNew|fBRem|fReset, oBasic)
				return c.P("C02")
			}(), Prop: "C02", Load: true}), pick(tier, 7, 10), 1),
			job(scAny(&sim.PairCfg{ID: "c02-rel-k3-dumpload", Base: func() *sim.Cfg {
				c := sim.RelCfg("c02-rel-k3-dumpload/base", 0, 3, 0, 1, fBld|fMove|fBNew, oBasic)
				return c.P("C02")
			}(), Prop: "C02", Load: true}), pick(tier, 5, 7), 1),
		}
	}, func(f *wx.Failure, _ string) bool {
		// how many entities a batch removal / creation reports is part of "alive = creations minus removals"
		return f.Prop == "" || f.Prop == "C02" || f.Prop == "C17" || strings.HasPrefix(f.Sig, "batch-count:Batch.RemoveEntities") || strings.HasPrefix(f.Sig, "created-count")
	})

	// ------------------------------------------------------------------ C03 queries
	wxCheck("C03", 75, 900, func(tier string) []runner.Job {
		return []runner.Job{
			job(sc(sim.RelCfg("c03-rel-k4-iter", 0, 4, 0, 8, fBld|fMove|fRet|fReg, oDeep).P("C03")), pick(tier, 4, 6), 3),
			job(sc(sim.RelCfg("c03-rel-k4-2p-iter", 0, 4, 2, 8, fBld|fMove|fRet|fReg|fBSet|fQ, oDeep).P("C03")), pick(tier, 4, 6), 2),
			job(sc(sim.Rel2Cfg("c03-rel2-k3-iter", 3, 0, 8, fBld|fMove|fRel|fRet|fReg, oDeep).P("C03")), pick(tier, 4, 6), 2),
			job(sc(sim.CoreCfg("c03-core-k4-iter", 4, 8, nil, fMove|fReg|fBNew|fBExch|fQ, oDeep).P("C03")), pick(tier, 4, 6), 3),
			job(sc(sim.LogicCfg("c03-logic-k3-iter", 3, fMove|fReg, oDeep).P("C03")), pick(tier, 4, 6), 2),
			job(sc(sim.RelCfg("c03-rel-k4-any-reg-life", 0, 4, 0, 8, fBld|fMove|fReg, oBasic).P("C03")), pick(tier, 7, 9), 3),
			job(sc(sim.RelCfg("c03-rel-k4-batchq", 0, 4, 0, 8, fBld|fBSet|fBExch|fBNew|fQ, oBasic).P("C03")), pick(tier, 5, 7), 3),
			job(sc(sim.CoreCfg("c03-core-k4-batchq", 4, 1, nil, fMove|fBExch|fBNew|fQ, oBasic).P("C03")), pick(tier, 4, 6), 2),
			// queries over a world whose entities came from LoadEntities (recycled IDs included)
			job(scAny(&sim.PairCfg{ID: "c03-ent-k4-loaded-world-iter", Base: func() *sim.Cfg {
				c := sim.EntCfg("c03-ent-k4-loaded-world-iter/base", 4, 1, fBNew|fBRem, oDeep)
				return c.P("C03")
			}(), Prop: "C03", Load: true}), pick(tier, 6, 8), 1),
			job(sc(sim.BoundaryNodesCfg("c03-boundary-34-nodes-iter", 1, fMove|fReg, oDeep).P("C03")), pick(tier, 2, 3), 1),
			job(sc(sim.CoreCfg("c03-core-k3-ids-63-64-128-iter", 3, 8, []int{63, 0, 63, 0}, fMove|fReg, oDeep).P("C03")), pick(tier, 4, 5), 1),
			job(sc(sim.CoreCfg("c03-core-k3-ids-0-64-127-191-iter", 3, 8, []int{0, 63, 62, 63}, fMove|fReg, oDeep).P("C03")), pick(tier, 4, 5), 1),
			job(sc(sim.BoundaryTablesCfg("c03-boundary-33-tables-iter", 1, fRet|fReg, oDeep).P("C03")), pick(tier, 2, 3), 1),
		}
	}, func(f *wx.Failure, _ string) bool {
		if f.Prop == "" || f.Prop == "C03" || f.Prop == "C09" {
			return true
		}
		for _, p := range []string{"query-set", "cached-set", "cached-count", "iter:", "batchquery", "batch-query-set"} {
			if strings.HasPrefix(f.Sig, p) {
				return true
			}
		}
		return false
	})

	// ------------------------------------------------------------------ C05 relation targets
	wxCheck("C05", 90, 900, func(tier string) []runner.Job {
		single := fBld | fMove | fRel | fRet | fRelX
		return []runner.Job{
			job(sc(sim.Rel2Cfg("c05-rel2-k3-single", 3, 0, 8, single, oBasic).P("C05")), pick(tier, 5, 7), 3),
			job(sc(sim.RelCfg("c05-rel-k3-single-illegal", 0, 3, 0, 8, single|fIll, oBasic).P("C05")), pick(tier, 4, 6), 3),
			job(sc(sim.RelCfg("c05-rel-r0-k3-single-illegal", 1, 3, 0, 8, single|fIll, oBasic).P("C05")), pick(tier, 4, 6), 2),
			job(sc(sim.RelCfg("c05-rel-r64-k3-single", 2, 3, 0, 8, single, oBasic).P("C05")), pick(tier, 4, 6), 1),
			job(sc(sim.RelCfg("c05-rel-k4-1p-saturating", 0, 4, 1, 8, fBld|fMove|fRet, oBasic).P("C05")), 0, 3),
			job(sc(sim.RelCfg("c05-rel-k3-batch", 0, 3, 0, 8, fBld|fRet|fBSet|fBExch|fRelX|fBNew|fQ|fIll, oBasic).P("C05")), pick(tier, 4, 6), 3),
			job(sc(sim.Rel2Cfg("c05-rel2-k3-batch", 3, 0, 1, fBld|fRel|fBSet|fBExch|fRelX, oBasic).P("C05")), pick(tier, 4, 6), 2),
			job(sc(sim.RelCfg("c05-rel-k4-batch-retarget", 0, 4, 0, 8, fBld|fRet|fBSet|fMove, oBasic).P("C05")), pick(tier, 6, 8), 2),
			job(sc(sim.RichOrphanCfg("c05-rich-orphan", 3, false, fMove|fRet|fRelX, oBasic).P("C05")), pick(tier, 4, 5), 1),
			job(sc(sim.RelCfg("c05-rel-k3-registered-relation-filters", 0, 3, 0, 8, fBld|fRet|fReg|fBSet, oBasic).P("C05")), pick(tier, 5, 7), 2),
			// what counts as a relation component after a rejected registration (decided in the lock scenario)
			job(scAny(&sim.LockCfg{ID: "c05-lock-q1-rejected-registration", Q: 1}), pick(tier, 3, 4), 0.5),
		}
	}, func(f *wx.Failure, last string) bool {
		if f.Prop == "" || f.Prop == "C05" || strings.HasPrefix(f.Sig, "register-locked:") {
			return true
		}
		// what a relation filter (plain or registered) selects is part of this property
		for _, p := range []string{"query-set", "cached-set", "cached-count"} {
			if strings.HasPrefix(f.Sig, p) && strings.Contains(f.Msg, "Rel(") {
				return true
			}
		}
		// a corrupted entity index or table right after an operation that sets or moves relation targets
		switch last {
		case "Relations.Set", "Relations.Exchange", "Batch.SetRelation", "Batch.SetRelationQ", "Relations.ExchangeBatch", "Relations.ExchangeBatchQ", "Builder.New", "Builder.Add":
			return strings.HasPrefix(f.Sig, "invariant:")
		}
		return false
	})

	// ------------------------------------------------------------------ C06 target death / table recycling
	wxCheck("C06", 90, 1800, func(tier string) []runner.Job {
		js := []runner.Job{
			job(sc(sim.RelCfg("c06-rel-k4-any-life", 0, 4, 0, 8, fBld|fMove|fRet, oBasic).P("C06")), pick(tier, 6, 8), 3),
			job(sc(sim.RelCfg("c06-rel-k4-any-batch", 0, 4, 0, 8, fBld|fRet|fBRem|fBSet, oBasic).P("C06")), pick(tier, 6, 8), 3),
			job(sc(sim.RelCfg("c06-rel-k4-any-reset", 0, 4, 0, 8, fBld|fMove|fReset|fBRem, oBasic).P("C06")), pick(tier, 6, 8), 2),
			job(sc(sim.RelCfg("c06-rel-k5-2p-life", 0, 5, 2, 8, fBld|fMove|fRet|fBRem, oBasic).P("C06")), pick(tier, 7, 10), 3),
			job(sc(sim.RelCfg("c06-rel-k3-any-val", 0, 3, 0, 1, fBld|fRet|fVal|fBNew|fReset, oBasic).P("C06")), pick(tier, 5, 7), 2),
			job(sc(sim.Rel2Cfg("c06-rel2-k4-any-life", 4, 0, 8, fBld|fRel|fRet, oBasic).P("C06")), pick(tier, 5, 7), 2),
			job(sc(sim.RelCfg("c06-rel-k4-any-reg-life", 0, 4, 0, 8, fBld|fMove|fReg, oBasic).P("C06")), pick(tier, 6, 8), 2),
			job(sc(sim.BoundaryTablesCfg("c06-boundary-33-tables", 2, fMove|fRet|fBRem, oBasic).P("C06")), pick(tier, 3, 4), 1),
			job(sc(sim.RelCfg("c06-rel-k4-any-reg-reset", 0, 4, 0, 8, fBld|fReg|fReset|fRet, oBasic).P("C06")), pick(tier, 6, 8), 2),
			job(sc(sim.RichRelCfg("c06-rich-two-nodes", 2, true, fMove|fRet|fBRem|fReset, oBasic).P("C06")), pick(tier, 4, 5), 2),
			job(sc(sim.RichOrphanCfg("c06-rich-orphan", 3, false, fMove|fRet, oBasic).P("C06")), pick(tier, 4, 6), 2),
			job(sc(func() *sim.Cfg {
				c := sim.RelCfg("c06-rel-k4-relcap1-reuse-values", 0, 4, 0, 4, fBld|fRet|fVal|fBNew, oBasic)
				c.RelCapInc = 1
				return c.P("C06")
			}()), pick(tier, 5, 7), 1),
		}
		if tier == "thorough" {
			js = append(js, featurePairs("C06", "c06-k4", fBld, 4, 8, nil)...)
		}
		return js
	}, func(f *wx.Failure, _ string) bool { return true })

	// C06 names storage that is retired and re-used: what happens to retired tables when component types are registered in the
	// meantime is enumerated by the registration/table-lifecycle schedules of C16
	ExtraParts["C06"] = func(rp *runner.Report) {
		runs := c16Usability(rp)
		rp.Trans += int(runs)
		fmt.Printf("  registration x table lifecycle: %d schedules (create / retire / re-use relation tables around type registrations)\n", runs)
	}

	// ------------------------------------------------------------------ C07 filter caching
	wxCheck("C07", 90, 1800, func(tier string) []runner.Job {
		mk := func(id string, k, parents int, feat uint32, regs int) wx.Scenario {
			c := sim.RelCfg(id, 0, k, parents, 8, feat|fReg|fBld|fPlain, oBasic).P("C07")
			c.MaxRegs = regs
			c.RegSpecs = []int{0, 4, 2}
			return sc(c)
		}
		js := []runner.Job{
			job(mk("c07-rel-k4-any-move", 4, 0, fMove, 1), pick(tier, 7, 10), 4),
			job(mk("c07-rel-k4-any-retarget", 4, 0, fRet, 1), pick(tier, 6, 9), 2),
			job(mk("c07-rel-k4-any-brem", 4, 0, fBRem, 1), pick(tier, 6, 9), 2),
			job(mk("c07-rel-k4-any-bset", 4, 0, fBSet|fQ, 1), pick(tier, 6, 8), 2),
			job(mk("c07-rel-k4-any-reset", 4, 0, fReset|fMove, 1), pick(tier, 6, 9), 2),
			job(mk("c07-rel-k4-any-move-retarget", 4, 0, fMove|fRet, 2), pick(tier, 5, 8), 2),
			job(mk("c07-rel-k5-2p-move-brem", 5, 2, fMove|fBRem, 1), pick(tier, 7, 10), 2),
			job(mk("c07-rel-k3-any-broad", 3, 0, fMove|fRel|fRet|fBRem|fBExch|fBSet|fReset|fQ, 2), pick(tier, 5, 7), 2),
			job(sc(func() *sim.Cfg {
				// filters that match tables with and without relation component
				c := sim.RelCfg("c07-rel-k4-any-mixed-filters", 0, 4, 0, 8, fReg|fBld|fPlain|fMove|fRel|fBRem, oBasic).P("C07")
				c.MaxRegs = 2
				c.RegSpecs = []int{6, 5, 0}
				c.BatchRefs = []int{6, 5}
				c.Sets = [][]int{{}, {0}, {1}, {1, 0}}
				return c
			}()), pick(tier, 6, 8), 2),
			job(sc(func() *sim.Cfg {
				c := sim.CoreCfg("c07-core-k4-mask-filters", 4, 8, nil, fMove|fReg|fBExch|fBRem|fPlain|fReset, oBasic).P("C07")
				c.MaxRegs = 2
				return c
			}()), pick(tier, 5, 7), 1),
			job(sc(sim.LogicCfg("c07-logic-k3", 3, fMove|fReg|fReset, oBasic).P("C07")), pick(tier, 5, 7), 1),
			job(sc(sim.RichRelCfg("c07-rich-two-nodes-registered", 2, true, fMove|fRet|fBRem|fReset|fPlain, oBasic).P("C07")), pick(tier, 4, 5), 2),
			job(sc(sim.RichOrphanCfg("c07-rich-orphan-registered", 3, true, fMove|fRet|fBRem|fPlain, oBasic).P("C07")), pick(tier, 4, 6), 1),
			job(sc(sim.BoundaryTablesCfg("c07-boundary-33-tables", 2, fMove|fRet|fBRem|fReg|fPlain, oBasic).P("C07")), pick(tier, 3, 4), 1),
			job(sc(sim.BoundaryNodesCfg("c07-boundary-34-nodes", 1, fMove|fReg|fBExch|fPlain, oBasic).P("C07")), pick(tier, 2, 3), 1),
		}
		if tier == "thorough" {
			js = append(js, featurePairs("C07", "c07-k4", fBld|fReg|fPlain, 4, 8, func(c *sim.Cfg) { c.RegSpecs = []int{0, 4, 6} })...)
		}
		return js
	}, func(f *wx.Failure, last string) bool {
		return f.Prop == "" || f.Prop == "C07" || isBatchKind(last)
	})

	// ------------------------------------------------------------------ C08 batch = singles
	wxCheck("C08", 90, 900, func(tier string) []runner.Job {
		batch := fBNew | fBRem | fBExch | fBSet | fQ
		return []runner.Job{
			// batch events = events of the single operations (a listener is installed; event failures after a batch call are accepted)
			job(sc(func() *sim.Cfg {
				c := sim.RichThreeTargetsCfg("c08-rich-three-targets-events", 1, fBSet|fBExch|fRelX|fBRem|fQ, oBasic|sim.OEvents)
				c.Listener = true
				return c.P("C08")
			}()), pick(tier, 3, 4), 1),
			job(sc(sim.RelCfg("c08-rel-k4-batch", 0, 4, 0, 8, fBld|batch|fRelX, oBasic).P("C08")), pick(tier, 5, 7), 3),
			job(sc(sim.RelCfg("c08-rel-k4-2p-batch-move", 0, 4, 2, 2, fBld|fMove|batch, oBasic).P("C08")), pick(tier, 5, 7), 2),
			job(sc(sim.Rel2Cfg("c08-rel2-k3-batch", 3, 0, 1, fBld|fRel|batch|fRelX, oBasic).P("C08")), pick(tier, 4, 6), 2),
			job(sc(sim.CoreCfg("c08-core-k4-batch", 4, 1, nil, fMove|batch|fVal, oBasic).P("C08")), pick(tier, 5, 7), 3),
			job(sc(func() *sim.Cfg {
				c := sim.RelCfg("c08-rel-k4-batch-registered", 0, 4, 0, 8, fBld|fReg|fBRem|fBSet|fBExch|fPlain|fRet, oBasic).P("C08")
				return c
			}()), pick(tier, 5, 7), 3),
		}
	}, func(f *wx.Failure, last string) bool {
		return f.Prop == "" || f.Prop == "C08" || isBatchKind(last)
	})

	// ------------------------------------------------------------------ C10 illegal operations
	wxCheck("C10", 90, 900, func(tier string) []runner.Job {
		return []runner.Job{
			job(sc(sim.RelCfg("c10-rel-k3-single", 0, 3, 0, 8, fBld|fMove|fRel|fRet|fRelX|fVal|fIll, oBasic).P("C10")), pick(tier, 4, 6), 3),
			job(sc(sim.RelCfg("c10-rel-r0-k3-single", 1, 3, 0, 8, fBld|fMove|fRel|fRet|fRelX|fIll, oBasic).P("C10")), pick(tier, 4, 6), 2),
			job(sc(sim.Rel2Cfg("c10-rel2-k3-single", 3, 0, 8, fBld|fMove|fRel|fRet|fRelX|fIll, oBasic).P("C10")), pick(tier, 4, 5), 2),
			job(sc(sim.CoreCfg("c10-core-k3", 3, 1, nil, fMove|fVal|fBNew|fBExch|fReg|fIll|fQ, oBasic).P("C10")), pick(tier, 4, 6), 2),
			job(sc(func() *sim.Cfg {
				c := sim.RelCfg("c10-rel-k3-batch-reg", 0, 3, 0, 8, fBld|fBNew|fBSet|fBExch|fBRem|fRelX|fReg|fReset|fIll|fQ|fVal, oBasic)
				c.BatchRefs = []int{0, 4, 5, 6} // also All() and All(A): batches over tables without the relation component
				return c.P("C10")
			}()), pick(tier, 4, 5), 2),
			// illegal accessor calls on open queries (Relation for a component that is not the entity's relation component)
			job(sc(sim.Rel2Cfg("c10-rel2-k3-query-accessors", 3, 0, 8, fBld|fMove|fRel, oDeep).P("C10")), pick(tier, 3, 4), 1),
			// illegal calls in a locked world, rejected registrations, out-of-range query indices (also decided by C09)
			job(scAny(&sim.LockCfg{ID: "c10-lock-q2", Q: 2, Probes: 1}), pick(tier, 5, 7), 1),
		}
	}, func(f *wx.Failure, _ string) bool { return true })

	// C10 also names "exceeding the type limit": the registry enumeration of C16 (registration counts 0..limit+1)
	ExtraParts["C10"] = func(rp *runner.Report) {
		ev := c16Bijection(rp)
		rp.Trans += ev
		fmt.Printf("  type limit: %d registry look-ups around 0..limit+1 registrations (components and resources)\n", ev)
		c10Construction(rp)
	}

	// ------------------------------------------------------------------ C11 events
	wxCheck("C11", 90, 900, func(tier string) []runner.Job {
		ev := func(c *sim.Cfg) wx.Scenario {
			c.Listener = true
			if len(c.Filters) > 5 && c.Filters[5].Name == "All()" {
				c.BatchRefs = append(c.BatchRefs, 5) // batches spanning tables with and without relation
			}
			c.Oracles = sim.OState | sim.OEvents
			return sc(c.P("C11"))
		}
		return []runner.Job{
			job(ev(sim.RichThreeTargetsCfg("c11-rich-three-targets-batch", 1, fBSet|fBExch|fRelX|fBRem|fRet|fQ, 0)), pick(tier, 3, 4), 1),
			job(ev(sim.Rel2Cfg("c11-rel2-k3-single", 3, 0, 8, fBld|fMove|fRel|fRet|fRelX|fVal, 0)), pick(tier, 5, 7), 3),
			job(ev(sim.RelCfg("c11-rel-k3-batch", 0, 3, 0, 8, fBld|fMove|fBNew|fBRem|fBExch|fBSet|fRelX|fQ, 0)), pick(tier, 5, 6), 3),
			job(ev(sim.Rel2Cfg("c11-rel2-k3-batch", 3, 0, 8, fBld|fRel|fBExch|fBSet|fRelX|fQ, 0)), pick(tier, 4, 6), 2),
			job(ev(sim.CoreCfg("c11-core-k3", 3, 1, nil, fMove|fVal|fBNew|fBExch|fBRem|fQ|fReset, 0)), pick(tier, 5, 6), 2),
			job(ev(sim.RelCfg("c11-rel-k4-1p-life", 0, 4, 1, 8, fBld|fMove|fRet|fBRem, 0)), pick(tier, 6, 8), 2),
			job(ev(sim.RelCfg("c11-rel-r0-k3-single", 1, 3, 0, 8, fBld|fMove|fRel|fRet|fRelX|fBExch, 0)), pick(tier, 4, 6), 2),
			// component IDs in the third and fourth mask word (event masks are computed with Mask.Xor/And)
			job(ev(sim.CoreCfg("c11-core-k3-ids-130-195", 3, 8, []int{130, 0, 63, 0}, fMove|fBExch|fQ, 0)), pick(tier, 4, 5), 1),
		}
	}, acceptProps("C11"))
}

func itoa(i int) string {
	if i < 10 {
		return string(rune('0' + i))
	}
	return string(rune('0'+i/10)) + string(rune('0'+i%10))
}

// c10Construction: illegal world construction.
func c10Construction(rp *runner.Report) {
	// illegal world construction
	for _, c := range []struct {
		name string
		f    func()
	}{
		{"NewWorld with two Config values", func() { ecs.NewWorld(ecs.NewConfig(), ecs.NewConfig()) }},
		{"NewWorld with capacity increment 0", func() { ecs.NewWorld(ecs.NewConfig().WithCapacityIncrement(0)) }},
		{"NewWorld with capacity increment -1", func() { ecs.NewWorld(ecs.NewConfig().WithCapacityIncrement(-1)) }},
	} {
		rp.Trans++
		if catchP(c.f) == nil {
			rp.Violation(&runner.ReplayFile{Scenario: "c10-construction", Sig: "nopanic:" + c.name, Kind: "c10misc",
				Msg: c.name + " did not panic", OpsText: []string{c.name}})
		}
	}
}

func init() {
	replayers["c10misc"] = func(rf *runner.ReplayFile) int {
		rp := runner.NewReport("C10", "quick")
		c10Construction(rp)
		if len(rp.Violations) > 0 {
			return 1
		}
		fmt.Println("no failure")
		return 0
	}
}
