// Package runner executes portfolios of explorations for one property and writes evidence, replays and verdict lines.
package runner

import (
	"bufio"
	"crypto/sha256"
	"encoding/json"
	"fmt"
	"os"
	"path/filepath"
	"sort"
	"strconv"
	"strings"
	"time"

	"verifharness/wx"
)

// Root is the /verif directory.
var Root = func() string {
	if r := os.Getenv("VERIF_ROOT"); r != "" {
		return r
	}
	return "/verif"
}()

// Job is one exploration of a portfolio.
type Job struct {
	Sc               wx.Scenario
	MaxDepth         int
	MaxStates        int
	Weight           float64 // share of the time budget
	Note             string
	CheckEveryReplay bool
	Workers          int // 0 = all cores
}

// Known findings ------------------------------------------------------------

// Finding is a line of KNOWN_FINDINGS.txt.
type Finding struct {
	Prop string
	Sig  string
	Text string
}

// LoadFindings parses /verif/KNOWN_FINDINGS.txt ("finding:" lines only).
func LoadFindings() []Finding {
	out := []Finding{}
	f, err := os.Open(filepath.Join(Root, "KNOWN_FINDINGS.txt"))
	if err != nil {
		return out
	}
	defer f.Close()
	sc := bufio.NewScanner(f)
	for sc.Scan() {
		line := strings.TrimSpace(sc.Text())
		if !strings.HasPrefix(line, "finding:") {
			continue
		}
		rest := strings.TrimSpace(strings.TrimPrefix(line, "finding:"))
		fd := Finding{}
		fields := strings.Fields(rest)
		txt := []string{}
		for _, w := range fields {
			switch {
			case strings.HasPrefix(w, "property=") && fd.Prop == "":
				fd.Prop = strings.TrimPrefix(w, "property=")
			case strings.HasPrefix(w, "sig=") && fd.Sig == "":
				fd.Sig = strings.TrimPrefix(w, "sig=")
			default:
				txt = append(txt, w)
			}
		}
		fd.Text = strings.Join(txt, " ")
		if fd.Sig != "" {
			out = append(out, fd)
		}
	}
	return out
}

// Replay files ------------------------------------------------------------

// ReplayFile is a stored counterexample.
type ReplayFile struct {
	Property string                 `json:"property"`
	Scenario string                 `json:"scenario"`
	Sig      string                 `json:"sig"`
	Msg      string                 `json:"msg"`
	Ops      []wx.Op                `json:"ops"`
	OpsText  []string               `json:"ops_text"`
	Kind     string                 `json:"kind,omitempty"`
	Extra    map[string]interface{} `json:"extra,omitempty"`
}

// WriteReplay stores a counterexample and returns its path.
func WriteReplay(rf *ReplayFile) string {
	dir := filepath.Join(Root, "replays")
	_ = os.MkdirAll(dir, 0o755)
	h := sha256.Sum256([]byte(rf.Scenario + "|" + rf.Sig))
	p := filepath.Join(dir, fmt.Sprintf("%s-%x.json", rf.Property, h[:5]))
	b, _ := json.MarshalIndent(rf, "", " ")
	_ = os.WriteFile(p, b, 0o644)
	return p
}

// Evidence ------------------------------------------------------------

// Evidence is the evidence file content.
type Evidence struct {
	PropertyID  string                 `json:"property_id"`
	Tier        string                 `json:"tier"`
	Seed        int                    `json:"seed"`
	Level       string                 `json:"level"`
	Coverage    map[string]interface{} `json:"coverage"`
	Assumptions []string               `json:"assumptions"`
	WallS       float64                `json:"wall_s"`
	Violations  int                    `json:"violations"`
}

// WriteEvidence writes /verif/evidence/<id>.json.
func WriteEvidence(ev *Evidence) {
	dir := filepath.Join(Root, "evidence")
	_ = os.MkdirAll(dir, 0o755)
	b, _ := json.MarshalIndent(ev, "", " ")
	_ = os.WriteFile(filepath.Join(dir, ev.PropertyID+".json"), b, 0o644)
}

// Seed returns VERIF_SEED (0 if unset). The explorations are exhaustive and do not use randomness; the seed is recorded only.
func Seed() int {
	s, _ := strconv.Atoi(os.Getenv("VERIF_SEED"))
	return s
}

// Budget returns the time budget in seconds for a tier.
func Budget(tier string, quick, thorough int) time.Duration {
	if s := os.Getenv("VERIF_BUDGET_S"); s != "" {
		if v, err := strconv.Atoi(s); err == nil && v > 0 {
			return time.Duration(v) * time.Second
		}
	}
	if tier == "thorough" {
		return time.Duration(thorough) * time.Second
	}
	return time.Duration(quick) * time.Second
}

// Report collects the outcome of a check.
type Report struct {
	Prop       string
	Tier       string
	Start      time.Time
	Runs       []map[string]interface{}
	States     int
	Trans      int
	Samples    []interface{}
	Exhaustive bool
	Violations []string // VIOLATION lines
	Known      map[string]string
	Outcomes   map[string]int
	Notes      []string
	Extra      map[string]interface{}
	NoRuns     bool // the check does not use the wx explorer: exhaustiveness is decided by the check itself
}

// GlobalNotes are added to every report (set before the check starts).
var GlobalNotes []string

// NewReport starts a report.
func NewReport(prop, tier string) *Report {
	rp := &Report{Prop: prop, Tier: tier, Start: time.Now(), Exhaustive: true, Known: map[string]string{}, Outcomes: map[string]int{}, Extra: map[string]interface{}{}}
	if len(GlobalNotes) > 0 {
		rp.Notes = append(rp.Notes, GlobalNotes...)
		rp.Exhaustive = false
	}
	return rp
}

// Violation records a violation with its replay file.
func (rp *Report) Violation(rf *ReplayFile) {
	rf.Property = rp.Prop
	p := WriteReplay(rf)
	line := fmt.Sprintf("VIOLATION property=%s replay=%s", rp.Prop, p)
	rp.Violations = append(rp.Violations, line)
	fmt.Println(line)
	fmt.Printf("  what: %s\n  sig: %s\n  scenario: %s\n", rf.Msg, rf.Sig, rf.Scenario)
	for i, s := range rf.OpsText {
		fmt.Printf("   %2d. %s\n", i+1, s)
	}
}

// KnownFinding records a known finding.
func (rp *Report) KnownFinding(prop, sig, what string) {
	if _, ok := rp.Known[sig]; ok {
		return
	}
	rp.Known[sig] = what
	fmt.Printf("KNOWN-FINDING: property=%s %s\n", prop, what)
}

// RunJobs runs explorations sharing a time budget. Failures are confirmed by re-execution before they are reported.
func (rp *Report) RunJobs(jobs []Job, budget time.Duration, accept func(f *wx.Failure, lastKind string) bool) {
	known := LoadFindings()
	isKnown := func(f *wx.Failure) bool {
		for _, k := range known {
			if k.Sig == f.Sig {
				return true
			}
		}
		return false
	}
	totalW := 0.0
	for _, j := range jobs {
		w := j.Weight
		if w == 0 {
			w = 1
		}
		totalW += w
	}
	deadlineAll := rp.Start.Add(budget)
	for ji, j := range jobs {
		w := j.Weight
		if w == 0 {
			w = 1
		}
		// remaining budget is shared among remaining jobs by weight
		remW := 0.0
		for _, j2 := range jobs[ji:] {
			w2 := j2.Weight
			if w2 == 0 {
				w2 = 1
			}
			remW += w2
		}
		rem := time.Until(deadlineAll)
		if rem < 2*time.Second {
			rem = 2 * time.Second
		}
		share := time.Duration(float64(rem) * w / remW)
		cfg := wx.Config{MaxDepth: j.MaxDepth, MaxStates: j.MaxStates, Deadline: time.Now().Add(share), IsKnown: isKnown, StopOnViolation: true, CheckEveryReplay: j.CheckEveryReplay, Accept: accept, Workers: j.Workers}
		if os.Getenv("VERIF_VERBOSE") != "" {
			name := j.Sc.Name()
			cfg.OnLevel = func(d int, st *wx.Stats) {
				fmt.Fprintf(os.Stderr, "  [%s] depth %d states %d trans %d t=%.1fs\n", name, d, st.States, st.Transitions, st.Wall.Seconds())
			}
		}
		st := wx.Explore(j.Sc, cfg)
		rp.absorb(j, st, accept, known)
	}
}

func (rp *Report) absorb(j Job, st *wx.Stats, accept func(f *wx.Failure, lastKind string) bool, known []Finding) {
	rp.States += st.States
	rp.Trans += st.Transitions
	if !st.Fixpoint {
		rp.Exhaustive = false
	}
	for k, v := range st.Outcomes {
		rp.Outcomes[k] += v
	}
	run := map[string]interface{}{
		"scenario": st.Scenario, "states": st.States, "transitions": st.Transitions, "self_loops": st.SelfLoops, "pruned": st.Pruned,
		"completed_depth": st.CompletedDepth, "fixpoint": st.Fixpoint, "cap_hit": st.CapHit, "wall_s": round2(st.Wall.Seconds()),
		"per_op_kind": st.PerKind, "distinct_outcomes": len(st.Outcomes), "frontier_sizes": st.FrontierSizes,
	}
	if j.Note != "" {
		run["note"] = j.Note
	}
	rp.Runs = append(rp.Runs, run)
	if len(st.Samples) > 0 && len(rp.Samples) < 12 {
		pick := st.Samples[len(st.Samples)-1]
		rp.Samples = append(rp.Samples, map[string]interface{}{"scenario": st.Scenario, "ops": pick})
	}
	fmt.Printf("  %-34s states=%-9d trans=%-10d depth=%-3d fixpoint=%-5t %s (%.1fs)\n", st.Scenario, st.States, st.Transitions, st.CompletedDepth, st.Fixpoint, st.CapHit, st.Wall.Seconds())
	for _, fo := range st.Found {
		if fo.Known {
			for _, k := range known {
				if k.Sig == fo.Sig {
					rp.KnownFinding(k.Prop, k.Sig, k.Text)
				}
			}
			continue
		}
		lastKind := ""
		if len(fo.Path) > 0 {
			lastKind = j.Sc.OpKind(fo.Path[len(fo.Path)-1])
		}
		if accept != nil && !accept(&fo.Failure, lastKind) {
			rp.Notes = append(rp.Notes, fmt.Sprintf("failure of another property's oracle met in %s and not reported here: [%s] %s", st.Scenario, fo.Prop, fo.Sig))
			fmt.Printf("  note: oracle of %s fired in %s (sig %s); it is reported by that property's check\n", fo.Prop, st.Scenario, fo.Sig)
			continue
		}
		// confirm: replay 5 times on fresh runs
		okN := 0
		for i := 0; i < 5; i++ {
			_, f, _ := wx.ReplayFull(j.Sc, fo.Path, accept)
			if f != nil && f.Sig == fo.Sig {
				okN++
			}
		}
		if okN < 5 {
			msg := fmt.Sprintf("failure %q reproduced only %d/5 times when replayed: nondeterministic", fo.Sig, okN)
			fmt.Println("  UNREPRODUCIBLE:", msg)
			rp.Notes = append(rp.Notes, msg)
			if rp.Prop != "C13" {
				continue
			}
		}
		rp.Violation(&ReplayFile{Scenario: st.Scenario, Sig: fo.Sig, Msg: fo.Msg, Ops: fo.Path, OpsText: wx.PathStrings(j.Sc, fo.Path), Kind: "wx"})
	}
}

func round2(x float64) float64 { return float64(int(x*100)) / 100 }

// Finish writes the evidence file and returns the exit code.
func (rp *Report) Finish(level string, assumptions []string, extra map[string]interface{}) int {
	cov := map[string]interface{}{
		"states":                        rp.States,
		"transitions":                   rp.Trans,
		"traces_validated_against_impl": rp.Trans,
		"samples":                       rp.Samples,
		"exhaustive":                    rp.Exhaustive && (len(rp.Runs) > 0 || rp.NoRuns),
		"runs":                          rp.Runs,
		"distinct_outcomes":             rp.Outcomes,
		"known_findings":                rp.Known,
		"notes":                         rp.Notes,
	}
	for k, v := range rp.Extra {
		cov[k] = v
	}
	for k, v := range extra {
		cov[k] = v
	}
	if len(rp.Samples) == 0 {
		cov["samples"] = []interface{}{"(no state beyond the initial one)"}
	}
	if rp.States < 1 {
		cov["states"] = 1
	}
	if rp.Trans < 1 {
		cov["transitions"] = 1
	}
	ev := &Evidence{PropertyID: rp.Prop, Tier: rp.Tier, Seed: Seed(), Level: level, Coverage: cov, Assumptions: assumptions,
		WallS: round2(time.Since(rp.Start).Seconds()), Violations: len(rp.Violations)}
	WriteEvidence(ev)
	keys := make([]string, 0, len(rp.Outcomes))
	for k := range rp.Outcomes {
		keys = append(keys, k)
	}
	sort.Strings(keys)
	fmt.Printf("%s %s: states=%d transitions=%d exhaustive=%t violations=%d known=%d wall=%.1fs outcomes=%d\n",
		rp.Prop, rp.Tier, rp.States, rp.Trans, cov["exhaustive"], len(rp.Violations), len(rp.Known), time.Since(rp.Start).Seconds(), len(keys))
	if len(rp.Violations) > 0 {
		return 1
	}
	return 0
}
