package sim

import (
	"verifharness/wx"
)

// Enabled implements wx.Run: the alphabet in the current model state, simplest first.
func (r *Run) Enabled() []wx.Op {
	c := r.cfg
	m := r.m
	f := c.Feat
	ill := f&FIllegal != 0
	ops := make([]wx.Op, 0, 64)
	add := func(k uint8, a, b, cc, d int8) {
		ops = append(ops, wx.Op{K: k, A: a, B: b, C: cc, D: d})
	}
	n := len(m.Slots)
	budget := c.K - n
	nv := c.Values
	if nv == 0 {
		nv = 1
	}

	// target candidates: slots that may be used as relation targets
	targets := []int8{-1}
	deadTargets := []int8{}
	for s := 0; s < n; s++ {
		if c.Parents > 0 && s >= c.Parents {
			break
		}
		if !c.inFocus(s) {
			continue
		}
		if m.Slots[s].Alive {
			targets = append(targets, int8(s))
		} else {
			deadTargets = append(deadTargets, int8(s))
		}
	}
	allTargets := targets
	if ill {
		allTargets = append(append([]int8{}, targets...), deadTargets...)
	}

	// ---- creation
	if budget > 0 {
		for si, set := range c.Sets {
			rel := firstRel(m, set)
			if c.Parents > 0 && n < c.Parents && len(set) > 0 {
				continue // parents first, as plain entities
			}
			add(OpNewEntity, int8(si), 0, 0, 0)
			if f&FVal != 0 && len(set) > 0 {
				for j := 1; j <= nv; j++ {
					add(OpNewEntityWith, int8(si), int8(j), 0, 0)
				}
			}
			if f&FVal != 0 && len(set) == 0 {
				add(OpNewEntityWith, int8(si), 1, 0, 0) // no components at all: same as NewEntity()
			}
			if rel >= 0 && f&FBuilder != 0 {
				for _, t := range allTargets {
					add(OpBuilderNew, int8(si), int8(rel), t, 0)
					if f&FVal != 0 {
						add(OpBuilderNew, int8(si), int8(rel), t, 1)
					}
				}
			}
			if ill && f&FBuilder != 0 {
				// a target although WithRelation was not called (whatever the components are)
				for meth := int8(0); meth < 3; meth++ {
					add(OpBuilderNoRel, int8(si), meth, 0, -1)
				}
				if len(targets) > 1 {
					add(OpBuilderNoRel, int8(si), 0, 0, targets[1])
				}
				for s2 := 0; s2 < n; s2++ {
					if m.Slots[s2].Alive && c.inFocus(s2) && len(set) > 0 && m.Slots[s2].Has&m.setBits(si) == 0 {
						add(OpBuilderNoRel, int8(si), 3, int8(s2), -1)
						break
					}
				}
			}
			if ill && f&FBuilder != 0 && f&FVal != 0 && len(set) > 0 {
				// the same mistakes when the entity is created from component values (a separate code path)
				if rel < 0 {
					add(OpBuilderNew, int8(si), int8(set[0]), -1, 1) // relation argument is not a relation component
				}
				for ci, k := range c.Comps {
					if k.IsRel() && ci != rel {
						add(OpBuilderNew, int8(si), int8(ci), -1, 1) // a relation component the entity lacks / another one than it has
						break
					}
				}
				if rel >= 0 {
					for ci, k := range c.Comps {
						if !k.IsRel() {
							in := false
							for _, x := range set {
								in = in || x == ci
							}
							if in {
								add(OpBuilderNew, int8(si), int8(ci), -1, 1) // a plain component of the set given as relation
								break
							}
						}
					}
				}
			}
			if ill && f&FBuilder != 0 && rel < 0 && len(set) > 0 {
				// target with a non-relation component / without relation
				add(OpBuilderNew, int8(si), int8(set[0]), -1, 0)
				add(OpBuilderNew, int8(si), -1, -1, 0)
				for ci, k := range c.Comps {
					if k.IsRel() {
						add(OpBuilderNew, int8(si), int8(ci), -1, 0) // relation component the entity lacks
						break
					}
				}
			}
			if f&FBNew != 0 {
				mb := c.MaxBatch
				if mb == 0 {
					mb = 2
				}
				for cnt := 1; cnt <= mb && cnt <= budget; cnt++ {
					add(OpNewBatch, int8(si), int8(cnt), -2, 0)
					if f&FQ != 0 {
						add(OpNewBatchQ, int8(si), int8(cnt), -2, 0)
					}
					if f&FVal != 0 && len(set) > 0 {
						add(OpNewBatch, int8(si), int8(cnt), -2, 1)
						if f&FQ != 0 {
							add(OpNewBatchQ, int8(si), int8(cnt), -2, 1)
						}
					}
					if rel >= 0 {
						for _, t := range allTargets {
							if f&FVal != 0 && cnt == 1 {
								add(OpNewBatch, int8(si), int8(cnt), t, 1) // component values and a target
							}
							add(OpNewBatch, int8(si), int8(cnt), t, 0)
							if f&FQ != 0 {
								add(OpNewBatchQ, int8(si), int8(cnt), t, 0)
							}
						}
					}
				}
				if ill {
					add(OpNewBatchZero, int8(si), 0, 0, 0)
					add(OpNewBatchZero, int8(si), -1, 0, 0)
					if f&FVal != 0 && len(set) > 0 {
						add(OpNewBatchZero, int8(si), 0, 0, 1) // from component values
					}
					if rel < 0 && len(set) > 0 {
						// batch creation with a target although the relation given to the builder is not a relation
						// component / not among the components
						tl := []int8{-1}
						if len(targets) > 1 {
							tl = append(tl, targets[1])
						}
						for _, t := range tl {
							add(OpNewBatchRel, int8(si), int8(set[0]), t, 0)
							for ci, k := range c.Comps {
								if k.IsRel() {
									add(OpNewBatchRel, int8(si), int8(ci), t, 0)
									break
								}
							}
						}
					}
				}
			}
		}
		if ill {
			for ci := range c.Comps {
				add(OpNewEntityDup, int8(ci), 0, 0, 0)
				break
			}
			// second relation component at creation
			for si, set := range c.Sets {
				_ = si
				_ = set
			}
		}
	}

	// ---- single entity operations
	for s := 0; s < n; s++ {
		e := &m.Slots[s]
		S := int8(s)
		if !e.Alive && !ill {
			continue
		}
		if !c.inFocus(s) {
			continue
		}
		if f&FRemove != 0 {
			add(OpRemoveEntity, S, 0, 0, 0)
		}
		if !e.Alive {
			// one representative per operation family on a dead (possibly recycled) handle
			if len(c.Move) > 0 {
				ci := int8(c.Move[0])
				add(OpReadDead, S, ci, 0, 0)
				add(OpReadDead, S, ci, 1, 0)
				if f&FMove != 0 {
					add(OpAdd, S, ci, 0, 0)
					add(OpRemove, S, ci, 0, 0)
					add(OpAddNone, S, 0, 0, 0)
				}
				if f&FVal != 0 {
					add(OpSet, S, ci, 1, 0)
					add(OpAssign, S, ci, 1, 0)
					add(OpWriteGet, S, ci, 1, 0)
				}
			}
			for ci, k := range c.Comps {
				if k.IsRel() {
					if f&FRetarget != 0 {
						add(OpRelSet, S, int8(ci), -1, 0)
						add(OpRelGet, S, int8(ci), 0, 0)
					}
					if f&FRelX != 0 {
						add(OpRelExchange, S, int8(ci), -1, -1)
					}
					break
				}
			}
			continue
		}
		rel := m.relOf(e.Has)
		for _, ci := range c.Move {
			k := c.Comps[ci]
			isRel := k.IsRel()
			if isRel && f&FRel == 0 || !isRel && f&FMove == 0 {
				continue
			}
			has := e.Has&(1<<ci) != 0
			if !has {
				if !(isRel && rel >= 0) || ill {
					add(OpAdd, S, int8(ci), 0, 0)
				}
				if ill {
					add(OpRemove, S, int8(ci), 0, 0)
				}
				if f&FVal != 0 && k.HasValue() && !(isRel && rel >= 0) {
					add(OpAssign, S, int8(ci), 1, 0)
				}
			} else {
				add(OpRemove, S, int8(ci), 0, 0)
				if ill {
					add(OpAdd, S, int8(ci), 0, 0)
				}
			}
		}
		if f&(FMove|FRel) != 0 {
			// exchange: add one absent, remove one present
			for _, ca := range c.Move {
				if e.Has&(1<<ca) != 0 {
					continue
				}
				for _, cr := range c.Move {
					if e.Has&(1<<cr) == 0 {
						continue
					}
					ra, rr := c.Comps[ca].IsRel(), c.Comps[cr].IsRel()
					if (ra || rr) && f&FRel == 0 {
						continue
					}
					if !(ra || rr) && f&FMove == 0 {
						continue
					}
					if ra && rel >= 0 && !rr && !ill {
						continue // would be a second relation
					}
					add(OpExchange, S, int8(ca), int8(cr), 0)
				}
			}
			if f&FMove != 0 && len(c.Move) >= 3 {
				// two components at once (the archetype graph is walked over two edges)
				for i, c1 := range c.Move {
					for _, c2 := range c.Move[i+1:] {
						if c.Comps[c1].IsRel() || c.Comps[c2].IsRel() {
							continue
						}
						h1, h2 := e.Has&(1<<c1) != 0, e.Has&(1<<c2) != 0
						if !h1 && !h2 {
							add(OpAddTwo, S, int8(c1), int8(c2), 0)
						}
						if h1 && h2 {
							add(OpRemoveTwo, S, int8(c1), int8(c2), 0)
						}
					}
				}
			}
			if ill && len(c.Move) > 0 {
				c0 := int8(c.Move[0])
				add(OpAddTwo, S, c0, c0, 0)
				add(OpExchange, S, c0, c0, 0)
				if len(c.Move) > 1 {
					add(OpAddTwo, S, c0, int8(c.Move[1]), 0)
					add(OpRemoveTwo, S, c0, int8(c.Move[1]), 0)
				}
				add(OpRemoveTwo, S, c0, c0, 0)
			}
			if ill || c.Listener {
				add(OpAddNone, S, 0, 0, 0)
			}
			if ill {
				add(OpAssignNone, S, 0, 0, 0)
				if f&FRelX != 0 {
					for _, ci := range c.Move {
						if !c.Comps[ci].IsRel() && e.Has&(1<<ci) == 0 {
							add(OpRelExchangeBad, S, int8(ci), 0, -1) // the relation argument names a component that is not a relation
							break
						}
					}
				}
			}
		}
		if f&FVal != 0 {
			for ci, k := range c.Comps {
				if !k.HasValue() {
					continue
				}
				if e.Has&(1<<ci) != 0 {
					add(OpSet, S, int8(ci), 0, 0)
					add(OpWriteGet, S, int8(ci), 0, 0)
					add(OpWriteQuery, S, int8(ci), 0, 0)
				} else if ill {
					add(OpSet, S, int8(ci), 1, 0)
				}
			}
		}
		if f&FRetarget != 0 {
			for ci, k := range c.Comps {
				if rel == ci {
					for _, t := range allTargets {
						if t >= 0 && m.Slots[t].H == e.Target && m.Slots[t].Alive && !ill {
							continue // same target: no-op
						}
						if t < 0 && e.Target.IsZero() && !ill {
							continue
						}
						add(OpRelSet, S, int8(ci), t, 0)
					}
				} else if ill && (k.IsRel() || ci == 0) {
					// relation component the entity lacks / non-relation component (ID 0 and others)
					add(OpRelSet, S, int8(ci), -1, 0)
					if len(targets) > 1 {
						add(OpRelSet, S, int8(ci), targets[1], 0)
					}
					add(OpRelGet, S, int8(ci), 0, 0)
				}
			}
			if ill {
				for ci, k := range c.Comps {
					if !k.IsRel() && e.Has&(1<<ci) != 0 {
						add(OpRelGet, S, int8(ci), 0, 0)
						add(OpRelSet, S, int8(ci), -1, 0)
						break
					}
				}
			}
		}
		if f&FRelX != 0 {
			for _, ca := range c.Move {
				if e.Has&(1<<ca) != 0 {
					continue
				}
				ra := c.Comps[ca].IsRel()
				if ra && rel >= 0 {
					// swap relation with new target
					for _, t := range allTargets {
						add(OpRelExchange, S, int8(ca), int8(rel), t)
					}
					continue
				}
				if !ra && rel < 0 {
					if ill {
						add(OpRelExchange, S, int8(ca), -1, -1) // resulting entity has no relation
					}
					continue
				}
				for _, t := range allTargets {
					add(OpRelExchange, S, int8(ca), -1, t)
				}
			}
			if rel >= 0 {
				for _, cr := range c.Move {
					if e.Has&(1<<cr) != 0 && !c.Comps[cr].IsRel() {
						for _, t := range allTargets {
							add(OpRelExchange, S, -1, int8(cr), t)
						}
					}
				}
			}
			if ill {
				add(OpRelExchangeNone, S, 0, 0, -1)
			}
			// Builder.Add with target
			for si, set := range c.Sets {
				if len(set) == 0 {
					continue
				}
				ok := true
				for _, ci := range set {
					if e.Has&(1<<ci) != 0 {
						ok = false
					}
				}
				if !ok && !ill {
					continue
				}
				srel := firstRel(m, set)
				if srel >= 0 && rel >= 0 && !ill {
					continue
				}
				if srel >= 0 {
					for _, t := range allTargets {
						add(OpBuilderAdd, S, int8(si), t, 0)
					}
					if f&FVal != 0 {
						add(OpBuilderAdd, S, int8(si), -1, 1)
					}
				} else {
					add(OpBuilderAdd, S, int8(si), -2, 0)
					if f&FVal != 0 {
						add(OpBuilderAdd, S, int8(si), -2, 1)
					}
					if ill {
						add(OpBuilderAdd, S, int8(si), -1, 0)
					}
				}
			}
		}
	}

	// ---- batch operations
	if f&(FBRem|FBExch|FBSet) != 0 {
		refs := []int8{}
		for _, spec := range c.BatchRefs {
			fs := &c.Filters[spec]
			ts := []int8{-1}
			if fs.Rel {
				ts = targets
				if ill {
					ts = allTargets
				}
			}
			for _, t := range ts {
				if t > 13 {
					continue // filter references encode the target slot in a few bits
				}
				refs = append(refs, encodeRef(spec, t, false))
				if f&FPlainToo != 0 && m.regIndex(spec, m.handle(t)) >= 0 {
					refs = append(refs, encodeRef(spec, t, true))
				}
			}
		}
		for _, ref := range refs {
			ms := m.matched(ref)
			if len(ms) == 0 && !ill {
				continue
			}
			if f&FBRem != 0 {
				add(OpBatchRemoveEnt, ref, 0, 0, 0)
			}
			if f&FBExch != 0 {
				for _, ci := range c.Move {
					allHave, noneHave := true, true
					for _, s := range ms {
						if m.Slots[s].Has&(1<<ci) != 0 {
							noneHave = false
						} else {
							allHave = false
						}
					}
					if noneHave || ill {
						add(OpBatchAdd, ref, int8(ci), 0, 0)
						if f&FQ != 0 {
							add(OpBatchAddQ, ref, int8(ci), 0, 0)
						}
					}
					if allHave || ill {
						add(OpBatchRemove, ref, int8(ci), 0, 0)
						if f&FQ != 0 {
							add(OpBatchRemoveQ, ref, int8(ci), 0, 0)
						}
					}
					if ill && len(ms) > 0 {
						// the same component added and removed in one batch call
						add(OpBatchExchange, ref, int8(ci), int8(ci), 0)
						if f&FQ != 0 {
							add(OpBatchExchangeQ, ref, int8(ci), int8(ci), 0)
						}
					}
					if noneHave {
						for _, cr := range c.Move {
							if cr == ci {
								continue
							}
							all2 := true
							for _, s := range ms {
								if m.Slots[s].Has&(1<<cr) == 0 {
									all2 = false
								}
							}
							if all2 && len(ms) > 0 {
								add(OpBatchExchange, ref, int8(ci), int8(cr), 0)
								if f&FQ != 0 {
									add(OpBatchExchangeQ, ref, int8(ci), int8(cr), 0)
								}
							}
						}
						if c.Comps[ci].IsRel() && f&FRelX != 0 {
							for _, t := range allTargets {
								add(OpRelExchangeBatch, ref, int8(ci), -1, t)
								if f&FQ != 0 {
									add(OpRelExchangeBatchQ, ref, int8(ci), -1, t)
								}
							}
						}
					}
				}
			}
			if f&FBSet != 0 {
				for ci, k := range c.Comps {
					if !k.IsRel() {
						continue
					}
					allHave := true
					for _, s := range ms {
						if m.Slots[s].Has&(1<<ci) == 0 {
							allHave = false
						}
					}
					if !allHave && !ill {
						continue
					}
					for _, t := range allTargets {
						add(OpBatchSetRel, ref, int8(ci), t, 0)
						if f&FQ != 0 {
							add(OpBatchSetRelQ, ref, int8(ci), t, 0)
						}
					}
				}
			}
		}
	}

	// ---- filter registration
	if f&FReg != 0 {
		if len(m.Regs) < c.MaxRegs {
			for _, spec := range c.RegSpecs {
				fs := &c.Filters[spec]
				ts := []int8{-1}
				if fs.Rel {
					ts = ts[:0]
					for s := 0; s < n && s < 14; s++ {
						if c.Parents > 0 && s >= c.Parents {
							break
						}
						if !c.inFocus(s) {
							continue
						}
						ts = append(ts, int8(s))
					}
					ts = append(ts, -1)
				}
				for _, t := range ts {
					if m.regIndex(spec, m.handle(t)) < 0 {
						add(OpRegister, encodeRef(spec, t, false), 0, 0, 0)
					}
				}
			}
		}
		for i := range m.Regs {
			add(OpUnregister, int8(i), 0, 0, 0)
			if ill {
				add(OpRegisterTwice, int8(i), 0, 0, 0)
			}
		}
		if ill && r.lastU != nil {
			add(OpUnregister, -1, 0, 0, 0)
		}
	}
	if f&FReset != 0 && (n > 0) {
		add(OpReset, 0, 0, 0, 0)
	}
	return ops
}
