package sim

import (
	"fmt"
	"strings"

	"github.com/mlange-42/arche/ecs"
	"verifharness/wx"
)

// Feature groups of the alphabet.
const (
	FMove     uint32 = 1 << iota // add/remove/exchange plain components on single entities
	FRel                         // add/remove/swap relation components on single entities
	FRetarget                    // Relations.Set
	FRelX                        // Relations.Exchange, Builder.Add with target
	FBRem                        // Batch.RemoveEntities
	FBExch                       // Batch.Add/Remove/Exchange, Relations.ExchangeBatch
	FBSet                        // Batch.SetRelation
	FReg                         // Cache.Register/Unregister
	FReset                       // World.Reset
	FVal                         // value writes (Set, Assign, pointer writes), creation with values
	FIllegal                     // illegal calls
	FQ                           // Q variants of batch operations
	FBNew                        // batch creation
	FBuilder                     // Builder.New with relation target
	FRemove                      // RemoveEntity (on by default via Std)
	FPlainToo                    // batch ops through the plain filter also when a registered one exists
)

// Oracle groups.
const (
	OState      uint32 = 1 << iota // world == model through the public API (C01, C02, C05)
	OInv                           // structural invariants hook
	OFilters                       // every menu filter, plain and registered, selects the model's set (C03 basic, C07)
	OIter                          // deep iteration oracle: Count/EntityAt/Step compositions (C03)
	OEvents                        // event oracle (C11)
	OTranscript                    // record a transcript hash (C13)
)

// Cfg describes a scenario.
type Cfg struct {
	ID        string
	Prop      string // property a failure is attributed to unless the oracle says otherwise
	Comps     []Kind // registration order
	Fillers   []int  // Fillers[i] filler types are registered before Comps[i] (optional)
	CapInc    int
	RelCapInc int
	K         int // handle budget per epoch
	Parents   int // >0: only the first Parents slots can be targets
	Sets      [][]int
	Filters   []FSpec
	BatchRefs []int // specs usable in batch operations
	MaxRegs   int
	RegSpecs  []int // specs that may be registered
	Move      []int // components for single-entity add/remove
	Feat      uint32
	Oracles   uint32
	Listener  bool
	Values    int                      // number of distinct value indices (default 1)
	MaxBatch  int                      // max batch creation count (default 2)
	Prefer    func(f *wx.Failure) bool // which failure to report when several oracles fire on the same state
	// PreloadDump, if set, provides an entity dump that is loaded into the fresh world before the history starts.
	PreloadDump func() *ecs.EntityDump
	// Prologue is applied to the fresh world before the exploration starts (a constructed, non-initial seed state).
	Prologue []wx.Op
	// Focus restricts single-entity operations and relation targets to these slots (nil: all slots).
	Focus []int
}

func (c *Cfg) inFocus(s int) bool {
	if c.Focus == nil {
		return true
	}
	for _, f := range c.Focus {
		if f == s {
			return true
		}
	}
	return false
}

// Name implements wx.Scenario.
func (c *Cfg) Name() string { return c.ID }

// New implements wx.Scenario.
func (c *Cfg) New() wx.Run { return NewRun(c) }

func (c *Cfg) compName(ci int8) string {
	if ci < 0 {
		return "-"
	}
	return c.Comps[ci].String()
}

func slotName(s int8) string {
	switch {
	case s == -1:
		return "zero"
	case s == -2:
		return "none"
	}
	return fmt.Sprintf("e%d", s)
}

func (c *Cfg) setName(s int8) string {
	names := []string{}
	for _, ci := range c.Sets[s] {
		names = append(names, c.Comps[ci].String())
	}
	return "{" + strings.Join(names, ",") + "}"
}

func (c *Cfg) refName(ref int8) string {
	spec, t, plain := decodeRef(ref)
	s := c.Filters[spec].Name
	if c.Filters[spec].Rel {
		s += "->" + slotName(t)
	}
	if plain {
		s += "(plain)"
	}
	return s
}

// OpKind implements wx.Scenario.
func (c *Cfg) OpKind(op wx.Op) string { return opNames[op.K] }

// OpString implements wx.Scenario.
func (c *Cfg) OpString(op wx.Op) string {
	n := opNames[op.K]
	switch op.K {
	case OpNewEntity:
		return fmt.Sprintf("%s(%s)", n, c.setName(op.A))
	case OpNewEntityWith:
		return fmt.Sprintf("%s(%s, v%d)", n, c.setName(op.A), op.B)
	case OpBuilderNew:
		return fmt.Sprintf("%s(%s, rel=%s, target=%s, v%d)", n, c.setName(op.A), c.compName(op.B), slotName(op.C), op.D)
	case OpNewBatch, OpNewBatchQ:
		return fmt.Sprintf("%s(%s, n=%d, target=%s, v%d)", n, c.setName(op.A), op.B, slotName(op.C), op.D)
	case OpNewBatchRel:
		return fmt.Sprintf("Builder(%s).WithRelation(%s).NewBatch(1, target=%s)", c.setName(op.A), c.compName(op.B), slotName(op.C))
	case OpNewBatchZero:
		return fmt.Sprintf("%s(%s, n=%d)", n, c.setName(op.A), op.B)
	case OpNewEntityDup:
		return fmt.Sprintf("NewEntity(%s,%s)", c.compName(op.A), c.compName(op.A))
	case OpRelExchangeBad:
		return fmt.Sprintf("Relations.Exchange(%s, add=%s, rem=none, relation=%s, target=%s)", slotName(op.A), c.compName(op.B), c.compName(op.B), slotName(op.D))
	case OpRemoveEntity, OpAddNone, OpAssignNone:
		return fmt.Sprintf("%s(%s)", n, slotName(op.A))
	case OpAdd, OpRemove, OpRelGet:
		return fmt.Sprintf("%s(%s, %s)", n, slotName(op.A), c.compName(op.B))
	case OpBuilderNoRel:
		return fmt.Sprintf("NewBuilder(%s).%s(target=%s) without WithRelation", c.setName(op.A), [...]string{"New", "NewBatch", "NewBatchQ", "Add"}[op.B], slotName(op.D))
	case OpReadDead:
		return fmt.Sprintf("%s(%s, %s)", [...]string{"Has", "Get"}[op.C], slotName(op.A), c.compName(op.B))
	case OpAddTwo, OpRemoveTwo:
		return fmt.Sprintf("%s(%s, %s, %s)", n, slotName(op.A), c.compName(op.B), c.compName(op.C))
	case OpExchange:
		return fmt.Sprintf("%s(%s, add=%s, rem=%s)", n, slotName(op.A), c.compName(op.B), c.compName(op.C))
	case OpAssign, OpSet, OpWriteGet, OpWriteQuery:
		return fmt.Sprintf("%s(%s, %s, v%d)", n, slotName(op.A), c.compName(op.B), op.C)
	case OpRelSet:
		return fmt.Sprintf("%s(%s, %s, target=%s)", n, slotName(op.A), c.compName(op.B), slotName(op.C))
	case OpRelExchange:
		return fmt.Sprintf("%s(%s, add=%s, rem=%s, target=%s)", n, slotName(op.A), c.compName(op.B), c.compName(op.C), slotName(op.D))
	case OpRelExchangeNone:
		return fmt.Sprintf("%s(%s, target=%s)", n, slotName(op.A), slotName(op.D))
	case OpBuilderAdd:
		return fmt.Sprintf("%s(%s, %s, target=%s, v%d)", n, slotName(op.A), c.setName(op.B), slotName(op.C), op.D)
	case OpBatchRemoveEnt:
		return fmt.Sprintf("%s(%s)", n, c.refName(op.A))
	case OpBatchAdd, OpBatchRemove, OpBatchAddQ, OpBatchRemoveQ:
		return fmt.Sprintf("%s(%s, %s)", n, c.refName(op.A), c.compName(op.B))
	case OpBatchExchange, OpBatchExchangeQ:
		return fmt.Sprintf("%s(%s, add=%s, rem=%s)", n, c.refName(op.A), c.compName(op.B), c.compName(op.C))
	case OpBatchSetRel, OpBatchSetRelQ:
		return fmt.Sprintf("%s(%s, %s, target=%s)", n, c.refName(op.A), c.compName(op.B), slotName(op.C))
	case OpRelExchangeBatch, OpRelExchangeBatchQ:
		return fmt.Sprintf("%s(%s, add=%s, rem=%s, target=%s)", n, c.refName(op.A), c.compName(op.B), c.compName(op.C), slotName(op.D))
	case OpRegister:
		return fmt.Sprintf("%s(%s)", n, c.refName(op.A))
	case OpUnregister, OpRegisterTwice:
		return fmt.Sprintf("%s(#%d)", n, op.A)
	}
	return n
}

// ---- filter menu helpers

func idsOf(ids []ecs.ID, cis ...int) []ecs.ID {
	out := make([]ecs.ID, len(cis))
	for i, c := range cis {
		out[i] = ids[c]
	}
	return out
}

func bitsOf(cis ...int) uint8 {
	var b uint8
	for _, c := range cis {
		b |= 1 << c
	}
	return b
}

// FAll is the filter All(cis...).
func FAll(name string, cis ...int) FSpec {
	inc := bitsOf(cis...)
	return FSpec{Name: name,
		Match: func(has uint8) bool { return has&inc == inc },
		Build: func(ids []ecs.ID) ecs.Filter { return ecs.All(idsOf(ids, cis...)...) }}
}

// FWithout is All(inc...).Without(exc...).
func FWithout(name string, inc []int, exc []int) FSpec {
	ib, eb := bitsOf(inc...), bitsOf(exc...)
	return FSpec{Name: name,
		Match: func(has uint8) bool { return has&ib == ib && has&eb == 0 },
		Build: func(ids []ecs.ID) ecs.Filter {
			f := ecs.All(idsOf(ids, inc...)...).Without(idsOf(ids, exc...)...)
			return &f
		}}
}

// FExclusive is All(inc...).Exclusive().
func FExclusive(name string, inc ...int) FSpec {
	ib := bitsOf(inc...)
	return FSpec{Name: name,
		Match: func(has uint8) bool { return has == ib },
		Build: func(ids []ecs.ID) ecs.Filter {
			f := ecs.All(idsOf(ids, inc...)...).Exclusive()
			return &f
		}}
}

// FRelOf turns a filter into a relation filter taking a target.
func FRelOf(f FSpec) FSpec {
	f.Rel = true
	f.Name = "Rel(" + f.Name + ")"
	return f
}
