package sim

import (
	"bytes"
	"fmt"
	"reflect"

	"github.com/mlange-42/arche/ecs"
	"github.com/mlange-42/arche/ecs/event"
	"github.com/mlange-42/arche/filter"
	"github.com/mlange-42/arche/generic"
	"verifharness/wx"
)

// Lock scenario operations.
const (
	LkOpen uint8 = 1 + iota
	LkNext
	LkStep
	LkCount
	LkEntityAt
	LkClose
	LkToggle
	LkRemoveProbe
	LkOpenBatch
	LkRegisterProbe
	LkReset
	LkReadOnly // read-only calls that open queries internally (DumpEntities, Stats, ...): never change the lock state
)

var lkNames = map[uint8]string{LkOpen: "Open", LkNext: "Next", LkStep: "Step", LkCount: "Count", LkEntityAt: "EntityAt", LkClose: "Close",
	LkToggle: "Add/Remove(unlocked)", LkRemoveProbe: "RemoveEntity+listener-probe", LkOpenBatch: "OpenBatchQ", LkRegisterProbe: "RegisterType(after rejected registration)", LkReset: "Reset (and re-create the same entities)", LkReadOnly: "read-only calls (DumpEntities, Stats, Count, cache look-ups)"}

// LockCfg is the world-lock scenario: a fixed small world; the state is the set of open queries.
type LockCfg struct {
	ID     string
	Q      int // max open queries
	Probes int // budget of entity removals with a probing listener
	Resets int // budget of World.Reset calls
}

// Name implements wx.Scenario.
func (c *LockCfg) Name() string { return c.ID }

// OpKind implements wx.Scenario.
func (c *LockCfg) OpKind(op wx.Op) string { return lkNames[op.K] }

// OpString implements wx.Scenario.
func (c *LockCfg) OpString(op wx.Op) string {
	switch op.K {
	case LkOpen:
		return fmt.Sprintf("q := Query(%s)", [...]string{"All(A)", "registered All(A)", "Rel(All(R), e1)", "All(A,R,Z) (no match)", "All()"}[op.A])
	case LkOpenBatch:
		return fmt.Sprintf("q := %s", [...]string{"Relations.SetBatchQ(All(R), R, other target)", "Batch.AddQ/RemoveQ(All(A), Z)"}[op.A])
	case LkNext, LkCount, LkClose:
		return fmt.Sprintf("q%d.%s()", op.A, lkNames[op.K])
	case LkStep:
		return fmt.Sprintf("q%d.Step(%d)", op.A, op.B)
	case LkEntityAt:
		return fmt.Sprintf("q%d.EntityAt(%d)", op.A, op.B)
	case LkRemoveProbe:
		return [...]string{"e := NewEntity(D); RemoveEntity(e) with a listener that calls every structural entry point", "e := NewEntity(D); Batch.RemoveEntities(All(D)) with a listener that calls every structural entry point",
			"NewEntity(D); NewEntity(C); Batch.RemoveEntities(Any(D,C)) with a listener restricted to D that calls every structural entry point",
			"e := NewEntity(D); RemoveEntity(e) with a listener subscribed to ComponentRemoved and relation events only that calls every structural entry point"}[op.A]
	}
	return lkNames[op.K]
}

type lockRes struct{ V int }
type lockRelType struct {
	ecs.Relation
	V int32
}
type lockPlainType struct{ V int32 }
type lockUnregType struct{ V [3]int16 }
type lockUnregRelType struct {
	ecs.Relation
	V int16
}

type lq struct {
	kind int
	q    ecs.Query
	seq  []ecs.Entity
	pos  int
}

// LockRun implements wx.Run.
type LockRun struct {
	cfg        *LockCfg
	w          ecs.World
	a, r, z, d ecs.ID
	e          [6]ecs.Entity
	cached     ecs.CachedFilter
	qs         []*lq
	probes     int
	resets     int
	regProbed  bool
	relTarget  int // which of e1/e2 the relation children point to
	zOn        bool
	outcome    string
	dead       bool
	entries    []lockEntry
	Calls      int
}

type lockEntry struct {
	name string
	call func()
}

// New implements wx.Scenario.
func (c *LockCfg) New() wx.Run {
	r := &LockRun{cfg: c}
	r.w = ecs.NewWorld(ecs.NewConfig().WithCapacityIncrement(4))
	w := &r.w
	r.a = ecs.ComponentID[CompA](w)
	r.r = ecs.ComponentID[CompR](w)
	r.z = ecs.ComponentID[CompZ](w)
	r.d = ecs.ComponentID[CompD](w)
	ecs.ComponentID[CompC](w)
	r.seed()
	r.cached = w.Cache().Register(ecs.All(r.a))
	r.entries = r.structuralEntries()
	return r
}

func (r *LockRun) seed() {
	w := &r.w
	r.e[1] = w.NewEntity(r.a)
	r.e[2] = w.NewEntity(r.a)
	b := ecs.NewBuilder(w, r.r).WithRelation(r.r)
	r.e[3] = b.New(r.e[1])
	b2 := ecs.NewBuilder(w, r.r, r.a).WithRelation(r.r)
	r.e[4] = b2.New(r.e[1])
	r.e[5] = w.NewEntity()
	ecs.AddResource(w, &lockRes{V: 1})
	r.relTarget = 0
	r.zOn = false
}

func (r *LockRun) filter(kind int) ecs.Filter {
	switch kind {
	case 0:
		return ecs.All(r.a)
	case 1:
		return &r.cached
	case 2:
		rf := ecs.NewRelationFilter(ecs.All(r.r), r.e[1])
		return &rf
	case 3:
		return ecs.All(r.a, r.r, r.z)
	}
	return ecs.All()
}

// Outcome implements wx.Run.
func (r *LockRun) Outcome() string { return r.outcome }

// Key implements wx.Run.
func (r *LockRun) Key(buf []byte) []byte {
	buf = r.w.VerifShape(buf, 0)
	buf = append(buf, "|Q"...)
	for _, q := range r.qs {
		buf = append(buf, byte(q.kind), byte(q.pos+1), byte(len(q.seq)))
	}
	buf = append(buf, byte(r.probes), byte(r.relTarget), byte(r.resets))
	if r.regProbed {
		buf = append(buf, 'P')
	}
	if r.zOn {
		buf = append(buf, 'Z')
	}
	return buf
}

// Enabled implements wx.Run.
func (r *LockRun) Enabled() []wx.Op {
	ops := []wx.Op{}
	if len(r.qs) < r.cfg.Q {
		for k := int8(0); k < 5; k++ {
			ops = append(ops, wx.Op{K: LkOpen, A: k})
		}
	}
	for i := range r.qs {
		I := int8(i)
		ops = append(ops, wx.Op{K: LkNext, A: I}, wx.Op{K: LkStep, A: I, B: 2}, wx.Op{K: LkStep, A: I, B: 1}, wx.Op{K: LkCount, A: I},
			wx.Op{K: LkEntityAt, A: I, B: 0}, wx.Op{K: LkEntityAt, A: I, B: int8(len(r.qs[i].seq))}, wx.Op{K: LkClose, A: I})
	}
	ops = append(ops, wx.Op{K: LkReadOnly})
	if len(r.qs) == 0 {
		ops = append(ops, wx.Op{K: LkToggle})
		ops = append(ops, wx.Op{K: LkOpenBatch, A: 0}, wx.Op{K: LkOpenBatch, A: 1})
		if r.probes < r.cfg.Probes {
			ops = append(ops, wx.Op{K: LkRemoveProbe, A: 0}, wx.Op{K: LkRemoveProbe, A: 1}, wx.Op{K: LkRemoveProbe, A: 2}, wx.Op{K: LkRemoveProbe, A: 3})
		}
		if !r.regProbed {
			ops = append(ops, wx.Op{K: LkRegisterProbe})
		}
		if r.resets < r.cfg.Resets {
			ops = append(ops, wx.Op{K: LkReset})
		}
	}
	return ops
}

func (r *LockRun) fail(sig, msg string) wx.Result {
	r.dead = true
	return wx.Result{Prune: true, Fail: &wx.Failure{Prop: "C09", Sig: sig, Msg: msg}}
}

func (r *LockRun) reference(f ecs.Filter) []ecs.Entity {
	out := []ecs.Entity{}
	q := r.w.Query(f)
	for q.Next() {
		out = append(out, q.Entity())
	}
	return out
}

// Apply implements wx.Run.
func (r *LockRun) Apply(op wx.Op) (res wx.Result) {
	if r.dead {
		return wx.Result{Prune: true}
	}
	r.outcome = "ok"
	w := &r.w
	name := r.cfg.OpString(op)
	defer func() {
		if x := recover(); x != nil {
			res = r.fail("panic:"+lkNames[op.K]+":"+panicClass(x), fmt.Sprintf("%s panicked: %v", name, x))
		}
	}()
	advance := func(q *lq, idx int, k int, ok bool) *wx.Result {
		q.pos += k
		if q.pos >= len(q.seq) {
			if ok {
				x := r.fail("iter:overrun", fmt.Sprintf("%s returned true past the end (%d entities)", name, len(q.seq)))
				return &x
			}
			// exhausted: the query closed itself
			r.qs = append(append([]*lq{}, r.qs[:idx]...), r.qs[idx+1:]...)
			if !panics(func() { q.q.Close() }) {
				x := r.fail("close-after-exhaustion:no-panic", name+": closing a query that was exhausted (and so released its lock) did not panic")
				return &x
			}
			return nil
		}
		if !ok {
			x := r.fail("iter:early-end", fmt.Sprintf("%s returned false at position %d of %d", name, q.pos, len(q.seq)))
			return &x
		}
		if e := q.q.Entity(); e != q.seq[q.pos] {
			x := r.fail("iter:position", fmt.Sprintf("%s: at position %d got %v, expected %v", name, q.pos, e, q.seq[q.pos]))
			return &x
		}
		return nil
	}
	switch op.K {
	case LkOpen:
		f := r.filter(int(op.A))
		wasLocked := w.IsLocked()
		var seq []ecs.Entity
		if !wasLocked || true {
			seq = r.reference(f)
		}
		q := &lq{kind: int(op.A), q: w.Query(f), seq: seq, pos: -1}
		r.qs = append(r.qs, q)
	case LkOpenBatch:
		var q ecs.Query
		var seq []ecs.Entity
		if op.A == 0 {
			r.relTarget = 1 - r.relTarget
			seq = r.reference(ecs.All(r.r))
			q = w.Relations().SetBatchQ(ecs.All(r.r), r.r, r.e[1+r.relTarget])
		} else {
			seq = r.reference(ecs.All(r.a))
			if r.zOn {
				q = w.Batch().RemoveQ(ecs.All(r.a), r.z)
			} else {
				q = w.Batch().AddQ(ecs.All(r.a), r.z)
			}
			r.zOn = !r.zOn
		}
		// the batch query visits the affected entities in its own order
		got := map[ecs.Entity]bool{}
		for _, e := range seq {
			got[e] = true
		}
		n := q.Count()
		if n != len(seq) {
			return r.fail("batchq:count", fmt.Sprintf("%s: Count() = %d, %d entities affected", name, n, len(seq)))
		}
		order := make([]ecs.Entity, n)
		for i := 0; i < n; i++ {
			order[i] = q.EntityAt(i)
			if !got[order[i]] {
				return r.fail("batchq:entity", fmt.Sprintf("%s: EntityAt(%d) = %v is not an affected entity", name, i, order[i]))
			}
		}
		r.qs = append(r.qs, &lq{kind: 10 + int(op.A), q: q, seq: order, pos: -1})
	case LkNext:
		q := r.qs[op.A]
		ok := q.q.Next()
		if x := advance(q, int(op.A), 1, ok); x != nil {
			return *x
		}
	case LkStep:
		q := r.qs[op.A]
		ok := q.q.Step(int(op.B))
		if x := advance(q, int(op.A), int(op.B), ok); x != nil {
			return *x
		}
	case LkCount:
		q := r.qs[op.A]
		if c := q.q.Count(); c != len(q.seq) {
			return r.fail("count", fmt.Sprintf("%s = %d, expected %d", name, c, len(q.seq)))
		}
	case LkEntityAt:
		q := r.qs[op.A]
		if int(op.B) >= len(q.seq) {
			if !panics(func() { q.q.EntityAt(int(op.B)) }) {
				return r.fail("entityat:range", fmt.Sprintf("%s did not panic with %d entities", name, len(q.seq)))
			}
			r.outcome = "illegal:index"
		} else if e := q.q.EntityAt(int(op.B)); e != q.seq[op.B] {
			return r.fail("entityat", fmt.Sprintf("%s = %v, expected %v", name, e, q.seq[op.B]))
		}
	case LkClose:
		q := r.qs[op.A]
		q.q.Close()
		r.qs = append(append([]*lq{}, r.qs[:op.A]...), r.qs[op.A+1:]...)
		// a lock is released exactly once: closing again is refused and does not release anybody else's lock
		if !panics(func() { q.q.Close() }) {
			return r.fail("close-twice:no-panic", name+": closing the query a second time did not panic")
		}
	case LkToggle:
		// after the last lock was released, structural operations succeed again
		if w.Has(r.e[5], r.z) {
			w.Remove(r.e[5], r.z)
		} else {
			w.Add(r.e[5], r.z)
		}
	case LkRemoveProbe:
		r.probes++
		e := w.NewEntity(r.d)
		probe := &probeListener{r: r}
		if op.A == 2 {
			// a listener restricted to component D; the batch removes a {D} table and then a {C} table, for which it is not notified
			c := ecs.ComponentID[CompC](w)
			e2 := w.NewEntity(c)
			m := ecs.All(r.d)
			probe.comps = &m
			w.SetListener(probe)
			w.Batch().RemoveEntities(filter.Any(r.d, c))
			w.SetListener(nil)
			if w.Alive(e2) {
				return r.fail("probe:not-removed", name+": second entity still alive")
			}
		} else {
			if op.A == 3 {
				// a listener that is not subscribed to EntityRemoved but is notified of the removal all the same (its components go)
				probe.subs = event.ComponentRemoved | event.RelationChanged | event.TargetChanged
			}
			w.SetListener(probe)
			if op.A == 0 || op.A == 3 {
				w.RemoveEntity(e)
			} else {
				w.Batch().RemoveEntities(ecs.All(r.d))
			}
			w.SetListener(nil)
		}
		if probe.calls != 1 {
			return r.fail("probe:events", fmt.Sprintf("%s: %d removal events delivered, expected 1", name, probe.calls))
		}
		if probe.err != "" {
			return r.fail("probe:"+probe.sig, name+": "+probe.err)
		}
		if w.Alive(e) {
			return r.fail("probe:not-removed", name+": entity still alive")
		}
	case LkReadOnly:
		d := w.DumpEntities()
		if n := w.Stats().Entities.Used; len(d.Alive) != n {
			return r.fail("readonly:dump", fmt.Sprintf("DumpEntities lists %d alive entities, Stats %d", len(d.Alive), n))
		}
		_ = w.Stats().String()
		for _, e := range r.e {
			if w.Alive(e) {
				_, _ = w.Mask(e), w.Ids(e)
			}
		}
		_ = ecs.ComponentIDs(w)
		_ = ecs.ResourceIDs(w)
		// an empty world next to it: a dump of nothing must not leave a lock behind either
		w2 := ecs.NewWorld()
		for round := 0; round < 3; round++ {
			d2 := w2.DumpEntities()
			if w2.IsLocked() || len(d2.Alive) != 0 {
				return r.fail("readonly:empty-dump-lock", "DumpEntities on a world without entities leaves the world locked")
			}
			e := w2.NewEntity()
			w2.RemoveEntity(e)
			if round == 1 {
				w2.Reset()
			}
		}
		// LoadEntities is structural: refused while a (even empty) query is open on a fresh or reset world, and nothing changes
		w3 := ecs.NewWorld()
		for round := 0; round < 2; round++ {
			q := w3.Query(ecs.All())
			if !panics(func() { w3.LoadEntities(&d) }) {
				return r.fail("load-locked:no-panic", fmt.Sprintf("LoadEntities on a locked %s world did not panic", [...]string{"fresh", "reset"}[round]))
			}
			q.Close()
			if w3.IsLocked() || w3.Stats().Entities.Used != 0 {
				return r.fail("load-locked:changed", "a rejected LoadEntities changed the world")
			}
			if panics(func() { w3.LoadEntities(&d) }) {
				return r.fail("load-locked:unusable", "after a rejected LoadEntities and closing the query, LoadEntities panics")
			}
			if w3.Stats().Entities.Used != len(d.Alive) {
				return r.fail("load-locked:count", "LoadEntities after a rejected attempt loaded a different number of entities")
			}
			w3.Reset()
		}
	case LkReset:
		r.resets++
		old := r.e
		w.Reset()
		if d := w.DumpEntities(); len(d.Alive) != 0 || w.IsLocked() {
			return r.fail("reset:dump", "after Reset, DumpEntities lists entities or leaves the world locked")
		}
		r.seed()
		if r.e != old {
			return r.fail("reset:handles", "after Reset the same creations issue different handles than on the fresh world")
		}
	case LkRegisterProbe:
		r.regProbed = true
		before := len(ecs.ComponentIDs(w))
		q := w.Query(ecs.All())
		ok := panics(func() { ecs.ComponentID[lockRelType](w) })
		q.Close()
		if !ok {
			return r.fail("register-locked:no-panic", "registering a new component type in a locked world did not panic")
		}
		if n := len(ecs.ComponentIDs(w)); n != before {
			return r.fail("register-locked:ids", fmt.Sprintf("a rejected registration changed ComponentIDs from %d to %d entries", before, n))
		}
		id := ecs.ComponentID[lockPlainType](w)
		info, ok2 := ecs.ComponentInfo(w, id)
		if !ok2 || info.IsRelation || info.Type != reflect.TypeOf(lockPlainType{}) {
			return r.fail("register-locked:leftover", fmt.Sprintf("after a rejected registration of a relation type, the next registered type is reported as %+v", info))
		}
		if int(idNum(id)) != before {
			return r.fail("register-locked:id", fmt.Sprintf("after a rejected registration the next type got ID %d, expected %d", idNum(id), before))
		}
		id2 := ecs.ComponentID[lockRelType](w)
		if int(idNum(id2)) != before+1 {
			return r.fail("register-locked:id2", "the rejected type does not get the next free ID afterwards")
		}
		e := w.NewEntity(id)
		if !w.Has(e, id) || w.Get(e, id) == nil {
			return r.fail("register-locked:unusable", "the type registered after a rejected registration is not usable")
		}
		// it is an ordinary component: it can be combined with a relation component, and relation calls on it are illegal
		if pv := catch(func() {
			w.Add(e, id2)
			w.Relations().Set(e, id2, r.e[1])
			if w.Relations().Get(e, id2) != r.e[1] {
				panic("target not stored")
			}
		}); pv != nil {
			return r.fail("register-locked:not-plain", fmt.Sprintf("an entity can not carry the type registered after a rejected registration together with a relation component: %v", pv))
		}
		if !panics(func() { w.Relations().Get(e, id) }) || !panics(func() { w.Relations().Set(e, id, r.e[1]) }) {
			return r.fail("register-locked:relation-calls", "relation calls on the (non-relation) type registered after a rejected registration of a relation type do not panic")
		}
		w.RemoveEntity(e)
	}
	if w.IsLocked() != (len(r.qs) > 0) {
		return r.fail("islocked", fmt.Sprintf("after %s: IsLocked() = %t with %d open queries", name, w.IsLocked(), len(r.qs)))
	}
	return wx.Result{}
}

type probeListener struct {
	r     *LockRun
	subs  event.Subscription // 0 = everything
	comps *ecs.Mask
	calls int
	err   string
	sig   string
}

func (l *probeListener) Subscriptions() event.Subscription {
	if l.subs != 0 {
		return l.subs
	}
	return event.All
}
func (l *probeListener) Components() *ecs.Mask             { return l.comps }
func (l *probeListener) Notify(w *ecs.World, e ecs.EntityEvent) {
	if !e.Contains(event.EntityRemoved) {
		return
	}
	l.calls++
	if !w.IsLocked() {
		l.err, l.sig = "the world is not locked while a removal event is delivered", "unlocked"
		return
	}
	if !w.Alive(e.Entity) || !w.Has(e.Entity, l.r.d) {
		l.err, l.sig = "the entity is not inspectable while its removal event is delivered", "not-inspectable"
		return
	}
	if f := l.r.checkStructural("inside a removal listener"); f != nil {
		l.err, l.sig = f.Msg, f.Sig
	}
}

// checkStructural calls every structural entry point; each must panic and leave the world exactly as it was.
func (r *LockRun) checkStructural(where string) *wx.Failure {
	before := r.w.VerifShape(nil, 0)
	idsBefore := len(ecs.ComponentIDs(&r.w))
	for _, en := range r.entries {
		r.Calls++
		pv := catch(en.call)
		if pv == nil {
			return &wx.Failure{Prop: "C09", Sig: "locked:no-panic:" + en.name, Msg: fmt.Sprintf("%s did not panic %s (world locked)", en.name, where)}
		}
		after := r.w.VerifShape(nil, 0)
		if !bytes.Equal(before, after) {
			return &wx.Failure{Prop: "C09", Sig: "locked:changed:" + en.name, Msg: fmt.Sprintf("%s panicked %s (world locked) but changed the world (panic: %v)", en.name, where, pv)}
		}
		if n := len(ecs.ComponentIDs(&r.w)); n != idsBefore {
			return &wx.Failure{Prop: "C09", Sig: "locked:registry:" + en.name, Msg: fmt.Sprintf("%s changed the component registry in a locked world", en.name)}
		}
	}
	return nil
}

// Check implements wx.Run.
func (r *LockRun) Check() *wx.Failure {
	if r.dead {
		return nil
	}
	if len(r.qs) == 0 {
		if r.w.IsLocked() {
			return &wx.Failure{Prop: "C09", Sig: "locked-at-rest", Msg: "world locked with no open query"}
		}
		return nil
	}
	if f := r.checkStructural(fmt.Sprintf("with %d open queries", len(r.qs))); f != nil {
		return f
	}
	// non-structural operations keep working under lock
	if pv := catch(func() {
		cur := *(*CompA)(r.w.Get(r.e[1], r.a))
		r.w.Set(r.e[1], r.a, &cur)
		_ = r.w.Has(r.e[1], r.a)
		_ = r.w.Alive(r.e[1])
		_ = r.w.Resources().Has(ecs.ResourceID[lockRes](&r.w))
		_ = r.w.Stats()
	}); pv != nil {
		return &wx.Failure{Prop: "C09", Sig: "locked:nonstructural-panic", Msg: fmt.Sprintf("a non-structural operation panicked in a locked world: %v", pv)}
	}
	return nil
}

// structuralEntries lists every structural entry point (ID-based and generic) with arguments that are legal in the seed world.
func (r *LockRun) structuralEntries() []lockEntry {
	w := &r.w
	e := r.e
	a, rr, d := r.a, r.r, r.d
	fa := ecs.All(a)
	fr := ecs.All(rr)
	val := func() ecs.Component { return ecs.Component{ID: d, Comp: &CompD{V: 3}} }
	mapD := generic.NewMap1[CompD](w)
	mapDZ := generic.NewMap2[CompD, CompZ](w)
	mapR := generic.NewMap1[CompR](w, generic.T[CompR]())
	relMap := generic.NewMap[CompR](w)
	dump := w.DumpEntities()
	mapA := generic.NewMap1[CompA](w)
	exA := ecs.All(a).Exclusive()
	return []lockEntry{
		{"World.NewEntity()", func() { w.NewEntity() }},
		{"World.NewEntity(A)", func() { w.NewEntity(a) }},
		{"World.NewEntityWith", func() { w.NewEntityWith(val()) }},
		{"World.RemoveEntity", func() { w.RemoveEntity(e[5]) }},
		{"World.Add", func() { w.Add(e[5], d) }},
		{"World.Assign", func() { w.Assign(e[5], val()) }},
		{"World.Remove", func() { w.Remove(e[1], a) }},
		{"World.Exchange", func() { w.Exchange(e[1], []ecs.ID{d}, []ecs.ID{a}) }},
		{"World.Reset", func() { w.Reset() }},
		{"World.LoadEntities", func() { w.LoadEntities(&dump) }},
		{"Builder.New", func() { ecs.NewBuilder(w, a).New() }},
		{"Builder.New(target)", func() { ecs.NewBuilder(w, rr).WithRelation(rr).New(e[1]) }},
		{"BuilderWith.New", func() { ecs.NewBuilderWith(w, val()).New() }},
		{"BuilderWith.New(target)", func() {
			ecs.NewBuilderWith(w, ecs.Component{ID: rr, Comp: &CompR{V: 1}}).WithRelation(rr).New(e[1])
		}},
		{"Builder.NewBatch", func() { ecs.NewBuilder(w, a).NewBatch(2) }},
		// component combinations and relation targets for which no node / table exists yet: nothing may be created before the lock check
		{"World.NewEntity(new combination)", func() { w.NewEntity(d, r.z) }},
		{"World.NewEntityWith(new combination)", func() { w.NewEntityWith(val(), ecs.Component{ID: r.z, Comp: &CompZ{}}) }},
		{"Builder.NewBatch(new combination)", func() { ecs.NewBuilder(w, d, r.z).NewBatch(2) }},
		{"Builder.NewBatchQ(new combination)", func() { q := ecs.NewBuilder(w, d, r.z, a).NewBatchQ(2); q.Close() }},
		{"BuilderWith.NewBatch(new combination)", func() { ecs.NewBuilderWith(w, val(), ecs.Component{ID: a, Comp: &CompA{V: 1}}).NewBatch(2) }},
		{"Builder.New(new target)", func() { ecs.NewBuilder(w, rr).WithRelation(rr).New(e[5]) }},
		{"Builder.NewBatch(new target)", func() { ecs.NewBuilder(w, rr).WithRelation(rr).NewBatch(2, e[5]) }},
		{"Builder.NewBatchQ(new target, new combination)", func() { q := ecs.NewBuilder(w, rr, d).WithRelation(rr).NewBatchQ(2, e[2]); q.Close() }},
		{"World.Add(new combination)", func() { w.Add(e[1], d, r.z) }},
		{"World.Exchange(new combination)", func() { w.Exchange(e[4], []ecs.ID{d}, []ecs.ID{a}) }},
		{"Relations.Exchange(new target)", func() { w.Relations().Exchange(e[5], []ecs.ID{rr, d}, nil, rr, e[2]) }},
		{"Batch.Add(new combination)", func() { w.Batch().Add(fr, d) }},
		{"Batch.Exchange(new combination)", func() { w.Batch().Exchange(fr, []ecs.ID{d, r.z}, nil) }},
		{"Relations.ExchangeBatch(new target)", func() { w.Relations().ExchangeBatch(&exA, []ecs.ID{rr, d}, nil, rr, e[2]) }},
		{"Batch.SetRelation(new target)", func() { w.Batch().SetRelation(fr, rr, e[2]) }},
		{"Relations.Set(new target)", func() { w.Relations().Set(e[3], rr, e[2]) }},
		// calls that would change nothing still are structural operations: they must be rejected in a locked world
		{"Relations.Set(same target)", func() { w.Relations().Set(e[3], rr, w.Relations().Get(e[3], rr)) }},
		{"Batch.SetRelation(same target)", func() { w.Batch().SetRelation(fr, rr, w.Relations().Get(e[3], rr)) }},
		{"World.Add(no components)", func() { w.Add(e[1]) }},
		{"Batch.RemoveEntities(no match)", func() { w.Batch().RemoveEntities(ecs.All(a, rr, r.z)) }},
		{"Batch.Add(no match)", func() { w.Batch().Add(ecs.All(a, rr, r.z), d) }},
		{"Builder.NewBatch(target)", func() { ecs.NewBuilder(w, rr).WithRelation(rr).NewBatch(2, e[1]) }},
		{"BuilderWith.NewBatch", func() { ecs.NewBuilderWith(w, val()).NewBatch(2) }},
		{"Builder.NewBatchQ", func() { q := ecs.NewBuilder(w, a).NewBatchQ(2); q.Close() }},
		{"BuilderWith.NewBatchQ", func() { q := ecs.NewBuilderWith(w, val()).NewBatchQ(2); q.Close() }},
		{"Builder.Add", func() { ecs.NewBuilder(w, d).Add(e[5]) }},
		{"Builder.Add(target)", func() { ecs.NewBuilder(w, rr).WithRelation(rr).Add(e[5], e[1]) }},
		{"BuilderWith.Add", func() { ecs.NewBuilderWith(w, val()).Add(e[5]) }},
		{"Batch.Add", func() { w.Batch().Add(fa, d) }},
		{"Batch.AddQ", func() { q := w.Batch().AddQ(fa, d); q.Close() }},
		{"Batch.Remove", func() { w.Batch().Remove(fa, a) }},
		{"Batch.RemoveQ", func() { q := w.Batch().RemoveQ(fa, a); q.Close() }},
		{"Batch.Exchange", func() { w.Batch().Exchange(fa, []ecs.ID{d}, []ecs.ID{a}) }},
		{"Batch.ExchangeQ", func() { q := w.Batch().ExchangeQ(fa, []ecs.ID{d}, []ecs.ID{a}); q.Close() }},
		{"Batch.SetRelation", func() { w.Batch().SetRelation(fr, rr, e[5]) }},
		{"Batch.SetRelationQ", func() { q := w.Batch().SetRelationQ(fr, rr, e[5]); q.Close() }},
		{"Batch.RemoveEntities", func() { w.Batch().RemoveEntities(fa) }},
		{"Batch.RemoveEntities(registered)", func() { w.Batch().RemoveEntities(&r.cached) }},
		{"Relations.Set", func() { w.Relations().Set(e[3], rr, e[5]) }},
		{"Relations.SetBatch", func() { w.Relations().SetBatch(fr, rr, e[5]) }},
		{"Relations.SetBatchQ", func() { q := w.Relations().SetBatchQ(fr, rr, e[5]); q.Close() }},
		{"Relations.Exchange", func() { w.Relations().Exchange(e[5], []ecs.ID{rr}, nil, rr, e[1]) }},
		{"Relations.ExchangeBatch", func() { w.Relations().ExchangeBatch(&exA, []ecs.ID{rr}, nil, rr, e[1]) }},
		{"Relations.ExchangeBatchQ", func() {
			q := w.Relations().ExchangeBatchQ(&exA, []ecs.ID{rr}, nil, rr, e[1])
			q.Close()
		}},
		{"ComponentID(unregistered type)", func() { ecs.ComponentID[lockUnregType](w) }},
		{"ComponentID(unregistered relation type)", func() { ecs.ComponentID[lockUnregRelType](w) }},
		{"TypeID(unregistered type)", func() { ecs.TypeID(w, reflect.TypeOf(struct{ X [7]int8 }{})) }},
		// generic wrappers
		{"generic.Map1.New", func() { mapD.New() }},
		{"generic.Map1.NewBatch", func() { mapD.NewBatch(2) }},
		{"generic.Map1.NewBatchQ", func() { q := mapD.NewBatchQ(2); q.Close() }},
		{"generic.Map1.NewWith", func() { mapD.NewWith(&CompD{V: 1}) }},
		{"generic.Map1.Add", func() { mapD.Add(e[5]) }},
		{"generic.Map1.AddBatch", func() { mapD.AddBatch(fa) }},
		{"generic.Map1.AddBatchQ", func() { q := mapD.AddBatchQ(fa); q.Close() }},
		{"generic.Map1.Assign", func() { mapD.Assign(e[5], &CompD{V: 1}) }},
		{"generic.Map1.Remove", func() { mapA.Remove(e[1]) }},
		{"generic.Map1.RemoveBatch", func() { mapA.RemoveBatch(fa) }},
		{"generic.Map1.RemoveBatchQ", func() { q := mapA.RemoveBatchQ(fa); q.Close() }},
		{"generic.Map1.RemoveEntities", func() { mapA.RemoveEntities(false) }},
		{"generic.Map1(relation).New(target)", func() { mapR.New(e[1]) }},
		{"generic.Map1(relation).NewBatch(target)", func() { mapR.NewBatch(2, e[1]) }},
		{"generic.Map1(relation).Add(target)", func() { mapR.Add(e[5], e[1]) }},
		{"generic.Map2.New", func() { mapDZ.New() }},
		{"generic.Map2.NewWith", func() { mapDZ.NewWith(&CompD{V: 1}, &CompZ{}) }},
		{"generic.Map2.Add", func() { mapDZ.Add(e[5]) }},
		{"generic.Map2.Assign", func() { mapDZ.Assign(e[5], &CompD{V: 1}, &CompZ{}) }},
		{"generic.Map2.AddBatch", func() { mapDZ.AddBatch(fa) }},
		{"generic.Map2.NewBatchQ", func() { q := mapDZ.NewBatchQ(1); q.Close() }},
		{"generic.Map.SetRelation", func() { relMap.SetRelation(e[3], e[5]) }},
		{"generic.Map.SetRelationBatch", func() { relMap.SetRelationBatch(fr, e[5]) }},
		{"generic.Map.SetRelationBatchQ", func() { q := relMap.SetRelationBatchQ(fr, e[5]); q.Close() }},
		{"generic.Exchange.NewEntity", func() { generic.NewExchange(w).Adds(generic.T[CompD]()).NewEntity() }},
		{"generic.Exchange.Add", func() { generic.NewExchange(w).Adds(generic.T[CompD]()).Add(e[5]) }},
		{"generic.Exchange.Remove", func() { generic.NewExchange(w).Removes(generic.T[CompA]()).Remove(e[1]) }},
		{"generic.Exchange.Exchange", func() {
			generic.NewExchange(w).Adds(generic.T[CompD]()).Removes(generic.T[CompA]()).Exchange(e[1])
		}},
		{"generic.Exchange.ExchangeBatch", func() {
			generic.NewExchange(w).Adds(generic.T[CompD]()).Removes(generic.T[CompA]()).ExchangeBatch(fa)
		}},
	}
}
