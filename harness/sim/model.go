package sim

import (
	"fmt"

	"github.com/mlange-42/arche/ecs"
	"verifharness/wx"
)

// Operation kinds. Parameters are documented per kind (A..D of wx.Op; E is packed into K's companion where needed).
const (
	OpNone             uint8 = iota
	OpNewEntity              // A=set
	OpNewEntityWith          // A=set, B=value index
	OpBuilderNew             // A=set, B=relation comp (ci, -1 = none configured), C=target slot (-1 zero, -2 no target argument), D=value index (0 = IDs only)
	OpNewBatch               // A=set, B=count, C=target slot (-1 zero, -2 none), D=value index; relation = first relation comp of the set
	OpNewBatchQ              // same, Q variant
	OpRemoveEntity           // A=slot
	OpAdd                    // A=slot, B=comp
	OpRemove                 // A=slot, B=comp
	OpExchange               // A=slot, B=add comp, C=rem comp
	OpAssign                 // A=slot, B=comp, C=value index
	OpSet                    // A=slot, B=comp, C=value index
	OpWriteGet               // A=slot, B=comp, C=value index
	OpWriteQuery             // A=slot, B=comp, C=value index
	OpRelSet                 // A=slot, B=relation comp, C=target slot
	OpRelExchange            // A=slot, B=add comp (-1 none), C=rem comp (-1 none), D=target slot; relation comp: see relFor
	OpBuilderAdd             // A=slot, B=set, C=target slot (-2 none), D=value index
	OpBatchRemoveEnt         // A=filter ref
	OpBatchAdd               // A=filter ref, B=comp
	OpBatchRemove            // A=filter ref, B=comp
	OpBatchExchange          // A=filter ref, B=add comp, C=rem comp
	OpBatchSetRel            // A=filter ref, B=relation comp, C=target slot
	OpRelExchangeBatch       // A=filter ref, B=add comp (-1), C=rem comp (-1), D=target slot
	OpBatchAddQ
	OpBatchRemoveQ
	OpBatchExchangeQ
	OpBatchSetRelQ
	OpRelExchangeBatchQ
	OpRegister   // A=filter ref
	OpUnregister // A=registration index
	OpReset
	OpRelGet          // A=slot, B=comp (illegal classes)
	OpAddTwo          // A=slot, B=comp, C=comp (multi-component add; duplicate IDs when B==C)
	OpRemoveTwo       // A=slot, B=comp, C=comp
	OpAddNone         // A=slot: World.Add(e) without components
	OpRegisterTwice   // A=registration index: Register(&cached)
	OpNewEntityDup    // A=comp: NewEntity(c, c)
	OpRelExchangeNone // A=slot, D=target: Relations.Exchange without components
	OpNewBatchZero    // A=set, B=count (0 or -1)
	OpNewBatchRel     // A=set, B=relation comp given to the builder, C=target slot: Builder.WithRelation(B).NewBatch(1, target)
	OpReadDead        // A=slot (dead), B=comp, C=accessor (0 Has, 1 Get): read accessors documented to panic for removed entities
	OpAssignNone      // A=slot: World.Assign(e) without components
	OpRelExchangeBad  // A=slot, B=add comp (not a relation), D=target slot: Relations.Exchange(e, [B], nil, relation=B, target)
	OpBuilderNoRel    // A=set, B=method (0 New, 1 NewBatch, 2 NewBatchQ, 3 Add), C=slot (Add), D=target slot: a target given to a builder without WithRelation
	numOps
)

var opNames = [...]string{"none", "NewEntity", "NewEntityWith", "Builder.New", "Builder.NewBatch", "Builder.NewBatchQ", "RemoveEntity",
	"Add", "Remove", "Exchange", "Assign", "Set", "WriteGet", "WriteQueryGet", "Relations.Set", "Relations.Exchange", "Builder.Add",
	"Batch.RemoveEntities", "Batch.Add", "Batch.Remove", "Batch.Exchange", "Batch.SetRelation", "Relations.ExchangeBatch",
	"Batch.AddQ", "Batch.RemoveQ", "Batch.ExchangeQ", "Batch.SetRelationQ", "Relations.ExchangeBatchQ",
	"Cache.Register", "Cache.Unregister", "Reset", "Relations.Get", "Add2", "Remove2", "Add0", "Register(cached)", "NewEntity(dup)",
	"Relations.Exchange(none)", "Builder.NewBatch(count<1)", "Builder.WithRelation(x).NewBatch", "Has/Get(removed entity)", "Assign(none)", "Relations.Exchange(non-relation)", "Builder(no relation).X(target)"}

// Class is the expected outcome class of an operation.
type Class uint8

// Outcome classes.
const (
	ClsOK Class = iota
	ClsMustPanic
	ClsUnspecified
)

// FSpec is a filter of the menu.
type FSpec struct {
	Name string
	Rel  bool // relation filter: takes a target
	// SelfOnly: which entities such a filter selects is not specified (a relation filter whose component part does not
	// require the relation component); only the agreement of Count/EntityAt/Next/Step among themselves is checked.
	SelfOnly bool
	Match    func(has uint8) bool
	Build    func(ids []ecs.ID) ecs.Filter // component part
}

// MEnt is the model of one entity handle.
type MEnt struct {
	H      ecs.Entity
	Alive  bool
	Has    uint8 // bit ci set = has component ci
	Val    [8]uint64
	Target ecs.Entity
}

// Reg is a registered filter.
type Reg struct {
	Spec   int
	Target ecs.Entity
}

// Model is the reference model.
type Model struct {
	cfg   *Cfg
	Slots []MEnt
	Regs  []Reg
	// matchedBefore: the slots matched by the last batch operation (at call time)
	matchedBefore []int
}

func (m *Model) clone() *Model {
	c := &Model{cfg: m.cfg}
	c.Slots = append(make([]MEnt, 0, len(m.Slots)+4), m.Slots...)
	c.Regs = append([]Reg(nil), m.Regs...)
	return c
}

// relOf returns the relation component index of a component set, -1 if none, -2 if more than one.
func (m *Model) relOf(has uint8) int {
	r := -1
	for ci, k := range m.cfg.Comps {
		if has&(1<<ci) != 0 && k.IsRel() {
			if r >= 0 {
				return -2
			}
			r = ci
		}
	}
	return r
}

func (m *Model) aliveCount() int {
	n := 0
	for i := range m.Slots {
		if m.Slots[i].Alive {
			n++
		}
	}
	return n
}

// handle returns the handle for a target slot (-1 = zero entity).
func (m *Model) handle(slot int8) ecs.Entity {
	if slot < 0 {
		return ecs.Entity{}
	}
	return m.Slots[slot].H
}

// targetOK reports whether the slot can legally be used as a target: zero or alive.
func (m *Model) targetOK(slot int8) bool {
	return slot < 0 || m.Slots[slot].Alive
}

// matches evaluates a filter of the menu (with resolved target) on an entity.
func (m *Model) matches(spec int, target ecs.Entity, e *MEnt) bool {
	f := &m.cfg.Filters[spec]
	if !f.Match(e.Has) {
		return false
	}
	if f.Rel {
		if m.relOf(e.Has) < 0 {
			return false
		}
		return e.Target == target
	}
	return true
}

// Expect is what the model predicts for an operation.
type Expect struct {
	Class   Class
	Why     string // illegal-argument class, for reporting
	NewN    int    // number of new handles expected
	NewFrom int    // index of first new slot
	Count   int    // expected return count of a batch operation (-1 = none)
	// slots affected by a Q variant (expected to be visited by the returned query)
	Affected []int
}

// FilterRef encodes a filter use: spec index and target slot, and whether the plain filter is forced.
// ref = spec + 16*(targetSlot+1) ; +8 forces the plain filter even if registered... kept simple: see decodeRef.
func encodeRef(spec int, target int8, plain bool) int8 {
	v := spec + 8*int(target+1)
	if plain {
		v = -v - 1
	}
	return int8(v)
}

func decodeRef(ref int8) (spec int, target int8, plain bool) {
	v := int(ref)
	if v < 0 {
		plain = true
		v = -v - 1
	}
	return v % 8, int8(v/8) - 1, plain
}

// regIndex returns the index of the registration of (spec, target), or -1.
func (m *Model) regIndex(spec int, target ecs.Entity) int {
	for i, r := range m.Regs {
		if r.Spec == spec && (!m.cfg.Filters[spec].Rel || r.Target == target) {
			return i
		}
	}
	return -1
}

// matched returns the slots matching a filter ref.
func (m *Model) matched(ref int8) []int {
	spec, ts, _ := decodeRef(ref)
	t := m.handle(ts)
	out := []int{}
	for i := range m.Slots {
		if m.Slots[i].Alive && m.matches(spec, t, &m.Slots[i]) {
			out = append(out, i)
		}
	}
	return out
}

// exchange applies the single-entity exchange semantics to slot s.
// add/rem are component indices (lists). hasRel: a relation+target is given.
// Returns the class and the illegal-argument class name.
func (m *Model) exchange(s int, add, rem []int, hasRel bool, rel int, target int8) (Class, string) {
	e := &m.Slots[s]
	if !e.Alive {
		return ClsMustPanic, "dead-entity"
	}
	if len(add) == 0 && len(rem) == 0 {
		if hasRel {
			return ClsMustPanic, "relation-exchange-without-components"
		}
		return ClsOK, ""
	}
	has := e.Has
	for i, c := range rem {
		for _, c2 := range rem[:i] {
			if c == c2 {
				return ClsMustPanic, "duplicate-id"
			}
		}
		if has&(1<<c) == 0 {
			return ClsMustPanic, "remove-absent"
		}
		has &^= 1 << c
	}
	for i, c := range add {
		for _, c2 := range add[:i] {
			if c == c2 {
				return ClsMustPanic, "duplicate-id"
			}
		}
		for _, c2 := range rem {
			if c == c2 {
				return ClsMustPanic, "add-and-remove-same"
			}
		}
		if has&(1<<c) != 0 {
			return ClsMustPanic, "add-present"
		}
		has |= 1 << c
	}
	newRel := m.relOf(has)
	if newRel == -2 {
		return ClsMustPanic, "second-relation"
	}
	oldRel := m.relOf(e.Has)
	newTarget := e.Target
	removedRel := false
	for _, c := range rem {
		if m.cfg.Comps[c].IsRel() {
			removedRel = true
		}
	}
	if removedRel || oldRel < 0 {
		newTarget = ecs.Entity{}
	}
	if hasRel {
		if !m.cfg.Comps[rel].IsRel() {
			return ClsMustPanic, "not-a-relation"
		}
		if has&(1<<rel) == 0 {
			return ClsMustPanic, "relation-missing"
		}
		if !m.targetOK(target) {
			return ClsMustPanic, "dead-target"
		}
		newTarget = m.handle(target)
	}
	if newRel < 0 {
		newTarget = ecs.Entity{}
	}
	for _, c := range rem {
		e.Val[c] = 0
	}
	for _, c := range add {
		e.Val[c] = 0
	}
	e.Has = has
	e.Target = newTarget
	return ClsOK, ""
}

// setRelation applies the single-entity Relations.Set semantics.
func (m *Model) setRelation(s int, rel int, target int8) (Class, string) {
	e := &m.Slots[s]
	if !e.Alive {
		return ClsMustPanic, "dead-entity"
	}
	if !m.targetOK(target) {
		return ClsMustPanic, "dead-target"
	}
	if e.Has&(1<<rel) == 0 {
		return ClsMustPanic, "relation-missing"
	}
	if !m.cfg.Comps[rel].IsRel() {
		return ClsMustPanic, "not-a-relation"
	}
	e.Target = m.handle(target)
	return ClsOK, ""
}

func (m *Model) setBits(set int) uint8 {
	var has uint8
	for _, c := range m.cfg.Sets[set] {
		has |= 1 << c
	}
	return has
}

// create predicts a creation of n entities with component set `has`, relation argument rel (-1 none), target slot (-2 = no target argument).
func (m *Model) create(n int, comps []int, rel int, target int8, val uint64s) (Class, string) {
	var has uint8
	for i, c := range comps {
		for _, c2 := range comps[:i] {
			if c == c2 {
				return ClsMustPanic, "duplicate-id"
			}
		}
		has |= 1 << c
	}
	r := m.relOf(has)
	if r == -2 {
		return ClsMustPanic, "second-relation"
	}
	var t ecs.Entity
	if target != -2 {
		if rel < 0 {
			return ClsMustPanic, "target-without-relation"
		}
		if !m.targetOK(target) {
			return ClsMustPanic, "dead-target"
		}
		if has&(1<<rel) == 0 {
			return ClsMustPanic, "relation-missing"
		}
		if !m.cfg.Comps[rel].IsRel() {
			return ClsMustPanic, "not-a-relation"
		}
		t = m.handle(target)
	}
	if n < 1 {
		return ClsMustPanic, "non-positive-count"
	}
	for i := 0; i < n; i++ {
		e := MEnt{Alive: true, Has: has, Target: t}
		for _, c := range comps {
			e.Val[c] = val[c]
		}
		m.Slots = append(m.Slots, e)
	}
	return ClsOK, ""
}

type uint64s = [8]uint64

// nextVal is the token the next write to component ci of slot s stores: one of two handle-specific tokens,
// always different from the current value, so that every write is observable while the value domain stays small.
func (m *Model) nextVal(s int, ci int) uint64 {
	e := &m.Slots[s]
	k := m.cfg.Comps[ci]
	v := narrow(k, token(e.H, ci, 1))
	if e.Val[ci] == v {
		v = narrow(k, token(e.H, ci, 2))
	}
	return v
}

// nextTok is nextVal before narrowing (what the harness actually writes).
func (m *Model) nextTok(s int, ci int) uint64 {
	e := &m.Slots[s]
	k := m.cfg.Comps[ci]
	if e.Val[ci] == narrow(k, token(e.H, ci, 1)) {
		return token(e.H, ci, 2)
	}
	return token(e.H, ci, 1)
}

func (m *Model) creationValues(comps []int, j int) uint64s {
	var v uint64s
	if j == 0 {
		return v
	}
	for _, c := range comps {
		v[c] = narrow(m.cfg.Comps[c], token(ecs.Entity{}, c, j))
	}
	return v
}

func firstRel(m *Model, comps []int) int {
	for _, c := range comps {
		if m.cfg.Comps[c].IsRel() {
			return c
		}
	}
	return -1
}

// relFor picks the relation component argument of Relations.Exchange-style operations.
func (m *Model) relFor(s int, add int8) int {
	if add >= 0 && m.cfg.Comps[add].IsRel() {
		return int(add)
	}
	if s >= 0 {
		if r := m.relOf(m.Slots[s].Has); r >= 0 {
			return r
		}
	}
	for ci, k := range m.cfg.Comps {
		if k.IsRel() {
			return ci
		}
	}
	return 0
}

func lst(c int8) []int {
	if c < 0 {
		return nil
	}
	return []int{int(c)}
}

// Step applies op to the model (which should be a clone) and returns the expectation.
func (m *Model) Step(op wx.Op) Expect {
	ex := Expect{Count: -1, NewFrom: len(m.Slots)}
	set := func(c Class, why string) Expect {
		ex.Class, ex.Why = c, why
		ex.NewN = len(m.Slots) - ex.NewFrom
		return ex
	}
	switch op.K {
	case OpNewEntity:
		comps := m.cfg.Sets[op.A]
		return set(m.create(1, comps, -1, -2, uint64s{}))
	case OpNewEntityDup:
		return set(m.create(1, []int{int(op.A), int(op.A)}, -1, -2, uint64s{}))
	case OpNewEntityWith:
		comps := m.cfg.Sets[op.A]
		return set(m.create(1, comps, -1, -2, m.creationValues(comps, int(op.B))))
	case OpBuilderNew:
		comps := m.cfg.Sets[op.A]
		return set(m.create(1, comps, int(op.B), op.C, m.creationValues(comps, int(op.D))))
	case OpNewBatch, OpNewBatchQ:
		comps := m.cfg.Sets[op.A]
		rel := firstRel(m, comps)
		c, why := m.create(int(op.B), comps, rel, op.C, m.creationValues(comps, int(op.D)))
		if c == ClsOK && op.K == OpNewBatchQ {
			for i := ex.NewFrom; i < len(m.Slots); i++ {
				ex.Affected = append(ex.Affected, i)
			}
		}
		return set(c, why)
	case OpNewBatchZero:
		comps := m.cfg.Sets[op.A]
		return set(m.create(int(op.B), comps, -1, -2, uint64s{}))
	case OpNewBatchRel:
		comps := m.cfg.Sets[op.A]
		return set(m.create(1, comps, int(op.B), op.C, uint64s{}))
	case OpRemoveEntity:
		e := &m.Slots[op.A]
		if !e.Alive {
			return set(ClsMustPanic, "dead-entity")
		}
		e.Alive = false
		return set(ClsOK, "")
	case OpAdd:
		return set(m.exchange(int(op.A), lst(op.B), nil, false, 0, 0))
	case OpAddTwo:
		return set(m.exchange(int(op.A), []int{int(op.B), int(op.C)}, nil, false, 0, 0))
	case OpRemoveTwo:
		return set(m.exchange(int(op.A), nil, []int{int(op.B), int(op.C)}, false, 0, 0))
	case OpAddNone:
		return set(m.exchange(int(op.A), nil, nil, false, 0, 0))
	case OpRemove:
		return set(m.exchange(int(op.A), nil, lst(op.B), false, 0, 0))
	case OpExchange:
		return set(m.exchange(int(op.A), lst(op.B), lst(op.C), false, 0, 0))
	case OpAssign:
		c, why := m.exchange(int(op.A), lst(op.B), nil, false, 0, 0)
		if c == ClsOK {
			e := &m.Slots[op.A]
			e.Val[op.B] = m.nextVal(int(op.A), int(op.B))
		}
		return set(c, why)
	case OpSet, OpWriteGet, OpWriteQuery:
		e := &m.Slots[op.A]
		if !e.Alive {
			if op.K == OpWriteQuery {
				return set(ClsUnspecified, "")
			}
			return set(ClsMustPanic, "dead-entity")
		}
		if e.Has&(1<<op.B) == 0 {
			if op.K != OpSet {
				return set(ClsUnspecified, "")
			}
			return set(ClsMustPanic, "component-missing")
		}
		e.Val[op.B] = m.nextVal(int(op.A), int(op.B))
		return set(ClsOK, "")
	case OpBuilderNoRel:
		return set(ClsMustPanic, "target-without-relation")
	case OpAssignNone:
		return set(ClsMustPanic, "no-components")
	case OpRelExchangeBad:
		return set(m.exchange(int(op.A), lst(op.B), nil, true, int(op.B), op.D))
	case OpReadDead:
		if !m.Slots[op.A].Alive {
			return set(ClsMustPanic, "dead-entity")
		}
		return set(ClsOK, "")
	case OpRelGet:
		e := &m.Slots[op.A]
		if !e.Alive {
			return set(ClsMustPanic, "dead-entity")
		}
		if e.Has&(1<<op.B) == 0 {
			return set(ClsMustPanic, "relation-missing")
		}
		if !m.cfg.Comps[op.B].IsRel() {
			return set(ClsMustPanic, "not-a-relation")
		}
		return set(ClsOK, "")
	case OpRelSet:
		return set(m.setRelation(int(op.A), int(op.B), op.C))
	case OpRelExchange:
		rel := m.relFor(int(op.A), op.B)
		return set(m.exchange(int(op.A), lst(op.B), lst(op.C), true, rel, op.D))
	case OpRelExchangeNone:
		rel := m.relFor(int(op.A), -1)
		return set(m.exchange(int(op.A), nil, nil, true, rel, op.D))
	case OpBuilderAdd:
		comps := m.cfg.Sets[op.B]
		rel := firstRel(m, comps)
		var c Class
		var why string
		if op.C != -2 {
			if rel < 0 {
				return set(ClsMustPanic, "target-without-relation")
			}
			c, why = m.exchange(int(op.A), comps, nil, true, rel, op.C)
		} else {
			if len(comps) == 0 && op.D != 0 {
				return set(ClsUnspecified, "")
			}
			c, why = m.exchange(int(op.A), comps, nil, false, 0, 0)
		}
		if c == ClsOK && op.D != 0 {
			e := &m.Slots[op.A]
			v := m.creationValues(comps, int(op.D))
			for _, ci := range comps {
				e.Val[ci] = v[ci]
			}
		}
		return set(c, why)
	case OpBatchRemoveEnt:
		ms := m.matched(op.A)
		m.matchedBefore = ms
		ex.Count = len(ms)
		for _, s := range ms {
			m.Slots[s].Alive = false
		}
		return set(ClsOK, "")
	case OpBatchAdd, OpBatchRemove, OpBatchExchange, OpBatchAddQ, OpBatchRemoveQ, OpBatchExchangeQ, OpRelExchangeBatch, OpRelExchangeBatchQ:
		ms := m.matched(op.A)
		ex.Count = len(ms)
		var add, rem []int
		hasRel := false
		rel := 0
		var target int8
		q := false
		switch op.K {
		case OpBatchAdd, OpBatchAddQ:
			add = lst(op.B)
			q = op.K == OpBatchAddQ
		case OpBatchRemove, OpBatchRemoveQ:
			rem = lst(op.B)
			q = op.K == OpBatchRemoveQ
		case OpBatchExchange, OpBatchExchangeQ:
			add, rem = lst(op.B), lst(op.C)
			q = op.K == OpBatchExchangeQ
		default:
			add, rem = lst(op.B), lst(op.C)
			hasRel = true
			rel = m.relFor(-1, op.B)
			target = op.D
			q = op.K == OpRelExchangeBatchQ
		}
		if len(add) == 0 && len(rem) == 0 {
			return set(ClsUnspecified, "")
		}
		if hasRel && !m.targetOK(target) {
			// Illegal for every matching entity; with no matching entity the documentation is silent.
			if len(ms) == 0 {
				return set(ClsUnspecified, "")
			}
			return set(ClsMustPanic, "dead-target")
		}
		for _, s := range ms {
			c, why := m.exchange(s, add, rem, hasRel, rel, target)
			if c != ClsOK {
				// Illegal for some matching entity: a panic is expected, nothing is asserted about the state.
				return set(ClsMustPanic, "batch:"+why)
			}
		}
		if q {
			ex.Affected = ms
		}
		return set(ClsOK, "")
	case OpBatchSetRel, OpBatchSetRelQ:
		ms := m.matched(op.A)
		ex.Count = len(ms)
		if !m.targetOK(op.C) {
			return set(ClsMustPanic, "dead-target")
		}
		t := m.handle(op.C)
		for _, s := range ms {
			e := &m.Slots[s]
			if e.Has&(1<<op.B) == 0 || !m.cfg.Comps[op.B].IsRel() {
				if t.IsZero() && m.relOf(e.Has) < 0 {
					// Target zero on entities without relation: silently skipped by the implementation, documentation ambiguous.
					return set(ClsUnspecified, "")
				}
				if e.Target == t {
					return set(ClsUnspecified, "")
				}
				return set(ClsMustPanic, "batch:relation-missing")
			}
		}
		for _, s := range ms {
			e := &m.Slots[s]
			if e.Target != t {
				if op.K == OpBatchSetRelQ {
					ex.Affected = append(ex.Affected, s)
				}
				e.Target = t
			}
		}
		return set(ClsOK, "")
	case OpRegister:
		spec, ts, _ := decodeRef(op.A)
		m.Regs = append(m.Regs, Reg{Spec: spec, Target: m.handle(ts)})
		return set(ClsOK, "")
	case OpRegisterTwice:
		return set(ClsMustPanic, "register-cached-filter")
	case OpUnregister:
		if int(op.A) >= len(m.Regs) {
			return set(ClsMustPanic, "unregister-twice")
		}
		m.Regs = append(m.Regs[:op.A], m.Regs[op.A+1:]...)
		return set(ClsOK, "")
	case OpReset:
		m.Slots = m.Slots[:0]
		ex.NewFrom = 0
		return set(ClsOK, "")
	}
	panic(fmt.Sprintf("model: unknown op %d", op.K))
}
