package sim

import (
	"encoding/json"
	"fmt"
	"reflect"

	"github.com/mlange-42/arche/ecs"
	"github.com/mlange-42/arche/generic"
	"verifharness/wx"
)

// Pair operations (in addition to the base alphabet).
const (
	OpPairReset    uint8 = 200 + iota // Reset the first world and pair it with a fresh one
	OpPairLoad                        // A = variant: dump the first world and load into a fresh (0..2: capacity increment 1,2,128) or reset (3: one entity alive at Reset, 4: none) world
	OpPairDump                        // take a dump and keep it while the world goes on
	OpPairLoadKept                    // load the kept dump into a fresh world: it must reproduce the world as it was when the dump was taken
)

// PairCfg is a scenario that explores a base scenario, and after a Reset (or dump/load) continues in lock-step
// on two worlds: the reset (or original) one and a fresh (or loaded) one.
type PairCfg struct {
	ID   string
	Base *Cfg
	Load bool // dump/load pairing instead of reset pairing
	Prop string
}

// Name implements wx.Scenario.
func (p *PairCfg) Name() string { return p.ID }

// OpKind implements wx.Scenario.
func (p *PairCfg) OpKind(op wx.Op) string {
	switch op.K {
	case OpPairReset:
		return "Reset+pair"
	case OpPairLoad:
		return "Dump+Load"
	case OpPairDump:
		return "Dump(kept)"
	case OpPairLoadKept:
		return "Load(kept dump)"
	}
	return p.Base.OpKind(op)
}

// OpString implements wx.Scenario.
func (p *PairCfg) OpString(op wx.Op) string {
	switch op.K {
	case OpPairReset:
		return "Reset (then continue in lock-step with a fresh world having the same registrations)"
	case OpPairLoad:
		return fmt.Sprintf("DumpEntities, LoadEntities into %s (then continue in lock-step)", [...]string{"a fresh world (capacity increment 1)", "a fresh world (capacity increment 2)", "a fresh world (capacity increment 128)", "a used and reset world", "a world that was emptied and then reset twice"}[op.A])
	}
	if op.K == OpPairDump {
		return "d := DumpEntities() (kept while the world goes on)"
	}
	if op.K == OpPairLoadKept {
		return "LoadEntities(&d) into a fresh world"
	}
	return p.Base.OpString(op)
}

// New implements wx.Scenario.
func (p *PairCfg) New() wx.Run {
	r := &PairRun{cfg: p, a: NewRun(p.Base)}
	if !p.Load {
		r.resID = ecs.AddResource(&r.a.w, &pairRes{V: 42})
		g := generic.NewResource[pairRes](&r.a.w)
		if g.Get() == nil {
			panic("harness: resource not found")
		}
		r.gres = &g
	}
	return r
}

type pairRes struct{ V int }

// PairRun implements wx.Run.
type PairRun struct {
	cfg     *PairCfg
	a, b    *Run
	resID   ecs.ResID
	gres    *generic.Resource[pairRes] // created and used before any Reset
	outcome string
	dead    bool
	// handleOrderFree: a batch removal over several entities has recycled IDs in table iteration order, which the
	// property exempts ("up to iteration order"); from then on the two worlds need not issue identical handles
	handleOrderFree bool
	// kept dump
	kept      *ecs.EntityDump
	keptCopy  []byte
	keptModel *Model
	keptAge   int
	// the dump object that was passed to LoadEntities, and its content at that time
	loaded     *ecs.EntityDump
	loadedCopy []byte
}

// Outcome implements wx.Run.
func (r *PairRun) Outcome() string { return r.outcome }

// Key implements wx.Run.
func (r *PairRun) Key(buf []byte) []byte {
	buf = r.a.Key(buf)
	if r.handleOrderFree {
		buf = append(buf, "||free"...)
	}
	if r.kept != nil {
		buf = append(buf, "||K"...)
		buf = append(buf, r.keptCopy...)
		if r.keptAge > 0 {
			buf = append(buf, '+')
		}
	}
	if r.b != nil {
		buf = append(buf, "||B"...)
		buf = r.b.Key(buf)
	}
	return buf
}

// Enabled implements wx.Run.
func (r *PairRun) Enabled() []wx.Op {
	ops := r.a.Enabled()
	out := make([]wx.Op, 0, len(ops)+4)
	for _, o := range ops {
		if o.K == OpReset && !(r.cfg.Load && r.b == nil) {
			// Reset of the first world is its own operation in the Reset pairs; before a dump is loaded it is an ordinary
			// operation of the history (the dumped world may have been reset before)
			continue
		}
		if r.cfg.Load && r.b != nil {
			// the loaded world has the entities without their components: only creations and removals continue in lock-step
			emptySet := (o.K == OpNewEntity || o.K == OpNewBatch) && len(r.a.cfg.Sets[o.A]) == 0 && (o.K == OpNewEntity || o.C == -2)
			removeAll := false
			if o.K == OpBatchRemoveEnt {
				spec, _, _ := decodeRef(o.A)
				// only in component-less scenarios: with components the two worlds store the entities in different
				// tables, so a batch removal legitimately recycles them in a different order
				removeAll = r.a.cfg.Filters[spec].Name == "All()"
				for _, set := range r.a.cfg.Sets {
					if len(set) > 0 {
						removeAll = false
					}
				}
			}
			if !(emptySet || removeAll || o.K == OpRemoveEntity) {
				continue
			}
		}
		out = append(out, o)
	}
	if r.cfg.Load {
		if r.b == nil {
			for v := int8(0); v < 5; v++ {
				out = append(out, wx.Op{K: OpPairLoad, A: v})
			}
			if r.kept == nil {
				out = append(out, wx.Op{K: OpPairDump})
			} else if r.keptAge > 0 {
				out = append(out, wx.Op{K: OpPairLoadKept})
			}
		}
	} else if len(r.a.m.Slots) > 0 || r.b == nil {
		out = append(out, wx.Op{K: OpPairReset})
	}
	return out
}

func (r *PairRun) fail(sig, msg string) wx.Result {
	r.dead = true
	return wx.Result{Prune: true, Fail: &wx.Failure{Prop: r.cfg.Prop, Sig: sig, Msg: msg}}
}

// Apply implements wx.Run.
func (r *PairRun) Apply(op wx.Op) wx.Result {
	if r.dead {
		return wx.Result{Prune: true}
	}
	switch op.K {
	case OpPairReset:
		return r.applyReset()
	case OpPairLoad:
		return r.applyLoad(int(op.A))
	case OpPairDump:
		d := r.a.w.DumpEntities()
		r.kept = &d
		r.keptCopy, _ = json.Marshal(&d)
		r.keptModel = r.a.m.clone()
		r.keptAge = 0
		r.outcome = "dump"
		return wx.Result{}
	case OpPairLoadKept:
		return r.applyLoadKept()
	}
	if r.kept != nil {
		r.keptAge++
	}
	ra := r.a.Apply(op)
	r.outcome = r.a.outcome
	if ra.Fail != nil {
		r.dead = true
		return ra
	}
	if r.b == nil {
		return ra
	}
	rb := r.b.Apply(op)
	if rb.Fail != nil {
		r.dead = true
		rb.Fail.Msg = "on the fresh/loaded twin world: " + rb.Fail.Msg
		return rb
	}
	if r.a.outcome != r.b.outcome || ra.Prune != rb.Prune {
		return r.fail("pair:outcome:"+opNames[op.K], fmt.Sprintf("%s: outcome %q on the first world, %q on its twin", r.a.cfg.OpString(op), r.a.outcome, r.b.outcome))
	}
	if ra.Prune {
		return ra
	}
	if op.K == OpBatchRemoveEnt && !r.cfg.Load {
		n := 0
		for i := range r.a.m.Slots {
			if i < len(r.b.m.Slots) && !r.a.m.Slots[i].Alive {
				n++
			}
		}
		if len(r.a.m.matchedBefore) > 1 {
			r.handleOrderFree = true
		}
		_ = n
	}
	if r.handleOrderFree {
		if len(r.a.m.Slots) != len(r.b.m.Slots) {
			return r.fail("pair:slots:"+opNames[op.K], "the two worlds issued a different number of handles")
		}
		return wx.Result{}
	}
	// identical handles
	sa, sb := r.a.m.Slots, r.b.m.Slots
	if len(sa) != len(sb) {
		return r.fail("pair:slots:"+opNames[op.K], "the two worlds issued a different number of handles")
	}
	for i := range sa {
		if sa[i].H != sb[i].H {
			which := "a fresh world"
			if r.cfg.Load {
				which = "the world it was loaded from"
			}
			return r.fail("pair:handle:"+opNames[op.K], fmt.Sprintf("%s: issued handle %v, but %s issued %v for the same operation", r.a.cfg.OpString(op), sa[i].H, which, sb[i].H))
		}
	}
	return wx.Result{}
}

func (r *PairRun) applyReset() wx.Result {
	a := r.a
	old := a.m.Slots
	res := a.Apply(wx.Op{K: OpReset})
	r.outcome = "reset"
	if res.Fail != nil {
		r.dead = true
		return res
	}
	w := &a.w
	// immediately after Reset: no entities, no resources, unlocked; old handles not alive
	if w.IsLocked() {
		return r.fail("reset:locked", "world locked after Reset")
	}
	if w.Resources().Has(r.resID) || w.Resources().Get(r.resID) != nil {
		return r.fail("reset:resource-kept", "a resource is still present after Reset")
	}
	{
		// a generic mapper that was created and used before the reset sees no resource either
		gm := r.gres
		if gm == nil {
			g := generic.NewResource[pairRes](w)
			gm = &g
			r.gres = gm
		}
		if gm.Has() || gm.Get() != nil {
			return r.fail("reset:resource-kept-generic", "a generic.Resource mapper created before the Reset still reports the resource afterwards")
		}
	}
	if id := ecs.ResourceID[pairRes](w); id != r.resID {
		return r.fail("reset:resource-id", "resource ID changed by Reset")
	}
	if panics(func() { w.Resources().Add(r.resID, &pairRes{V: 43}) }) {
		return r.fail("reset:resource-add", "resource can not be added again after Reset")
	}
	// two locks at a time behave as on a fresh world
	{
		q1 := w.Query(ecs.All())
		q2 := w.Query(ecs.All())
		q2.Close()
		stillLocked := w.IsLocked()
		pv := catch(func() { q1.Close() })
		if !stillLocked || pv != nil || w.IsLocked() {
			return r.fail("reset:locks", fmt.Sprintf("after Reset nested queries do not hold separate locks (locked after closing the inner one: %t, closing the outer one: %v)", stillLocked, pv))
		}
	}
	q := w.Query(ecs.All())
	n := q.Count()
	q.Close()
	if n != 0 || w.Stats().Entities.Used != 0 {
		return r.fail("reset:entities", fmt.Sprintf("%d entities left after Reset", n))
	}
	for i := range old {
		alive := false
		func() {
			defer func() { _ = recover() }()
			alive = w.Alive(old[i].H)
		}()
		if alive {
			return r.fail("reset:alive", fmt.Sprintf("handle %v from before the Reset is still reported alive", old[i].H))
		}
	}
	for ci := range a.cfg.Comps {
		info, ok := ecs.ComponentInfo(w, a.ids[ci])
		if !ok || info.IsRelation != a.cfg.Comps[ci].IsRel() {
			return r.fail("reset:component-id", "component ID no longer valid after Reset")
		}
	}
	// the twin: a fresh world with the same types, registrations and listener
	cb := *a.cfg
	cb.Prologue, cb.PreloadDump = nil, nil // the twin is a fresh world
	b := NewRun(&cb)
	b.cfg = a.cfg
	ecs.AddResource(&b.w, &pairRes{V: 43})
	for i, g := range a.m.Regs {
		_ = i
		b.registerRaw(g.Spec, g.Target)
	}
	r.b = b
	r.handleOrderFree = false
	return wx.Result{}
}

// registerRaw registers a filter of the menu for an explicit target handle.
func (r *Run) registerRaw(spec int, target ecs.Entity) {
	f := r.build(spec, target)
	cf := r.w.Cache().Register(f)
	r.regs = append(r.regs, regState{plain: f, cached: cf})
	r.m.Regs = append(r.m.Regs, Reg{Spec: spec, Target: target})
}

func (r *PairRun) applyLoad(variant int) wx.Result {
	a := r.a
	w := &a.w
	r.outcome = "load"
	dump := w.DumpEntities()
	// JSON round trip of the dump and of every handle
	js, err := json.Marshal(&dump)
	if err != nil {
		return r.fail("load:json", "dump can not be marshalled: "+err.Error())
	}
	var back ecs.EntityDump
	if err := json.Unmarshal(js, &back); err != nil {
		return r.fail("load:json", "dump can not be unmarshalled: "+err.Error())
	}
	if !dumpEqual(&dump, &back) {
		return r.fail("load:json-roundtrip", fmt.Sprintf("dump changed by a JSON round trip: %s", js))
	}
	for i := range a.m.Slots {
		h := a.m.Slots[i].H
		b, _ := json.Marshal(h)
		var h2 ecs.Entity
		if err := json.Unmarshal(b, &h2); err != nil || h2 != h {
			return r.fail("load:json-entity", fmt.Sprintf("handle %v changed by a JSON round trip (%s)", h, b))
		}
	}
	// loading into a world that has (or had, without reset) entities must be refused
	if len(a.m.Slots) > 0 {
		if !panics(func() { w.LoadEntities(&back) }) {
			return r.fail("load:not-refused", "LoadEntities into a world that has or had entities did not panic")
		}
	}
	c2 := *a.cfg
	c2.CapInc = []int{1, 2, 128, 1, 2}[variant]
	c2.Prologue, c2.PreloadDump = nil, nil // the receiving world is fresh
	b := NewRun(&c2)
	b.cfg = a.cfg
	if variant == 3 {
		// a used and reset world
		e1 := b.w.NewEntity()
		b.w.NewEntity()
		b.w.RemoveEntity(e1)
		b.w.Reset()
	}
	if variant == 4 {
		// a world whose entities were all removed before the reset, reset twice
		e1 := b.w.NewEntity()
		e2 := b.w.NewEntity()
		b.w.RemoveEntity(e1)
		b.w.RemoveEntity(e2)
		b.w.Reset()
		b.w.Reset()
	}
	if pv := catch(func() { b.w.LoadEntities(&back) }); pv != nil {
		return r.fail("load:panic", fmt.Sprintf("LoadEntities into a fresh or reset world panicked: %v", pv))
	}
	r.loaded = &back
	r.loadedCopy, _ = json.Marshal(&back)
	b.m = a.m.clone()
	for i := range b.m.Slots {
		b.m.Slots[i].Has = 0
		b.m.Slots[i].Val = uint64s{}
		b.m.Slots[i].Target = ecs.Entity{}
	}
	// every handle ever issued gets the same Alive answer
	for i := range a.m.Slots {
		h := a.m.Slots[i].H
		var la bool
		if pv := catch(func() { la = b.w.Alive(h) }); pv != nil {
			return r.fail("load:alive-panic", fmt.Sprintf("Alive(%v) panics in the loaded world (%v); the original answers %t", h, pv, w.Alive(h)))
		}
		if w.Alive(h) != la {
			return r.fail("load:alive", fmt.Sprintf("Alive(%v) is %t in the original and %t in the loaded world", h, w.Alive(h), la))
		}
	}
	// a second dump is identical (at load time)
	d2 := b.w.DumpEntities()
	if !dumpEqual(&dump, &d2) {
		j2, _ := json.Marshal(&d2)
		return r.fail("load:second-dump", fmt.Sprintf("dump of the loaded world differs: %s vs %s", js, j2))
	}
	r.b = b
	return wx.Result{}
}

// applyLoadKept loads a dump that was taken earlier: a dump is a snapshot.
func (r *PairRun) applyLoadKept() wx.Result {
	r.outcome = "load-kept"
	now, _ := json.Marshal(r.kept)
	if string(now) != string(r.keptCopy) {
		return r.fail("load:dump-not-a-snapshot", fmt.Sprintf("a dump changed while the dumped world was used further: was %s, is %s", r.keptCopy, now))
	}
	c2 := *r.a.cfg
	c2.Prologue, c2.PreloadDump = nil, nil
	b := NewRun(&c2)
	if pv := catch(func() { b.w.LoadEntities(r.kept) }); pv != nil {
		return r.fail("load:panic", fmt.Sprintf("LoadEntities of a kept dump into a fresh world panicked: %v", pv))
	}
	for i := range r.keptModel.Slots {
		e := &r.keptModel.Slots[i]
		if got := b.w.Alive(e.H); got != e.Alive {
			return r.fail("load:kept-alive", fmt.Sprintf("after loading a kept dump Alive(%v) = %t, but it was %t when the dump was taken", e.H, got, e.Alive))
		}
	}
	r.dead = true
	return wx.Result{Prune: true}
}

func catch(f func()) (pv interface{}) {
	defer func() { pv = recover() }()
	f()
	return nil
}

func dumpEqual(a, b *ecs.EntityDump) bool {
	if a.Next != b.Next || a.Available != b.Available || len(a.Entities) != len(b.Entities) || len(a.Alive) != len(b.Alive) {
		return false
	}
	return reflect.DeepEqual(a.Entities, b.Entities) && (len(a.Alive) == 0 || reflect.DeepEqual(a.Alive, b.Alive))
}

// Check implements wx.Run.
func (r *PairRun) Check() *wx.Failure {
	if r.dead {
		return nil
	}
	if f := r.a.Check(); f != nil {
		return f
	}
	if r.b != nil {
		if f := r.b.Check(); f != nil {
			f.Msg = "on the fresh/loaded twin world: " + f.Msg
			return f
		}
		if r.cfg.Load && r.loaded != nil {
			// the dump that was loaded is a value of its own: using the loaded world must not change it
			if now, _ := json.Marshal(r.loaded); string(now) != string(r.loadedCopy) {
				return &wx.Failure{Prop: r.cfg.Prop, Sig: "load:dump-aliased", Msg: fmt.Sprintf("the dump passed to LoadEntities changed while the loaded world was used: was %s, is %s", r.loadedCopy, now)}
			}
		}
		if r.cfg.Load {
			// after continued use: pool state identical
			da, db := r.a.w.DumpEntities(), r.b.w.DumpEntities()
			if da.Next != db.Next || da.Available != db.Available || !reflect.DeepEqual(da.Entities, db.Entities) {
				return &wx.Failure{Prop: r.cfg.Prop, Sig: "load:pool-diverged", Msg: fmt.Sprintf("entity pools diverged after continued use: %+v vs %+v", da, db)}
			}
			if len(da.Alive) != len(db.Alive) {
				return &wx.Failure{Prop: r.cfg.Prop, Sig: "load:alive-diverged", Msg: "alive sets diverged after continued use"}
			}
		}
	}
	return nil
}
