package sim

import (
	"fmt"
	"os"
	"runtime"
	"sort"
	"strings"
	"unsafe"

	"github.com/mlange-42/arche/ecs"
	"github.com/mlange-42/arche/ecs/event"
	"verifharness/wx"
)

// regState is the harness side of a registered filter.
type regState struct {
	plain  ecs.Filter
	cached ecs.CachedFilter
}

// Run is one execution: a real world plus the model.
type Run struct {
	cfg   *Cfg
	w     ecs.World
	ids   []ecs.ID
	m     *Model
	regs  []regState
	lastU *ecs.CachedFilter // last unregistered filter, valid for an "unregister twice" call
	lis   *recListener
	// per-operation observations
	outcome  string
	hist     uint64
	poisoned bool
	gcEvery  bool
	// failure met while applying the scripted prologue (reported by the first Check)
	prologueFail *wx.Failure
}

// BeginFinal implements wx.Finalizer: with VERIF_GC_EVERY_OP set, a garbage collection is forced immediately
// before and after the operation under test of every explored history.
func (r *Run) BeginFinal() { r.gcEvery = gcEveryOp }

// Hist implements wx.Historian.
func (r *Run) Hist() uint64 { return r.hist }

func (r *Run) fold(vals ...uint64) {
	h := r.hist
	if h == 0 {
		h = 14695981039346656037
	}
	for _, v := range vals {
		for b := 0; b < 8; b++ {
			h ^= (v >> (8 * b)) & 0xff
			h *= 1099511628211
		}
	}
	r.hist = h
}

func entU(e ecs.Entity) uint64 { return uint64(e.ID())<<32 | uint64(e.Generation()) }

// transcript folds everything observable about the last operation into the running history hash.
func (r *Run) transcript(op wx.Op, o *obs) {
	r.fold(uint64(op.K), uint64(uint8(op.A)), uint64(uint8(op.B)), uint64(uint8(op.C)), uint64(uint8(op.D)))
	for _, e := range o.created {
		r.fold(1, entU(e))
	}
	if o.hasCount {
		r.fold(2, uint64(o.count))
	}
	for _, e := range o.visited {
		r.fold(3, entU(e))
	}
	if r.lis != nil {
		for i := range r.lis.events {
			ev := &r.lis.events[i]
			r.fold(4, entU(ev.e.Entity), uint64(ev.e.EventTypes), uint64(ev.oldRel+1), uint64(ev.newRel+1), entU(ev.e.OldTarget), entU(ev.targetAt))
			for _, id := range ev.added {
				r.fold(5, uint64(idNum(id)))
			}
			for _, id := range ev.removed {
				r.fold(6, uint64(idNum(id)))
			}
		}
	}
	// iteration order of every menu filter, plain and registered
	targets := []ecs.Entity{{}}
	for i := range r.m.Slots {
		targets = append(targets, r.m.Slots[i].H)
	}
	for spec := range r.cfg.Filters {
		ts := targets[:1]
		if r.cfg.Filters[spec].Rel {
			ts = targets
		}
		for _, t := range ts {
			r.fold(7, uint64(spec))
			for _, e := range r.collect(r.build(spec, t)) {
				r.fold(entU(e))
			}
		}
	}
	for i := range r.regs {
		r.fold(8, uint64(i))
		for _, e := range r.collect(&r.regs[i].cached) {
			r.fold(entU(e))
		}
	}
	d := r.w.DumpEntities()
	r.fold(9, uint64(d.Next), uint64(d.Available))
	for _, a := range d.Alive {
		r.fold(uint64(a))
	}
}

// NewRun creates a fresh world for a scenario.
func NewRun(c *Cfg) *Run {
	r := &Run{cfg: c}
	conf := ecs.NewConfig().WithCapacityIncrement(c.CapInc)
	if c.RelCapInc > 0 {
		conf = conf.WithRelationCapacityIncrement(c.RelCapInc)
	}
	r.w = ecs.NewWorld(conf)
	r.ids = make([]ecs.ID, len(c.Comps))
	nf := 0
	for i, k := range c.Comps {
		if i < len(c.Fillers) && c.Fillers[i] > 0 {
			registerFillers(&r.w, nf, c.Fillers[i])
			nf += c.Fillers[i]
		}
		r.ids[i] = register(&r.w, k)
	}
	r.m = &Model{cfg: c}
	if c.PreloadDump != nil {
		d := c.PreloadDump()
		r.w.LoadEntities(d)
		for _, idx := range d.Alive {
			r.m.Slots = append(r.m.Slots, MEnt{H: d.Entities[idx], Alive: true})
		}
	}
	if c.Listener {
		r.lis = &recListener{r: r}
		r.w.SetListener(r.lis)
	}
	for _, o := range c.Prologue {
		if x := r.Apply(o); x.Fail != nil || x.Prune {
			r.prologueFail = x.Fail
			if x.Fail == nil {
				r.prologueFail = &wx.Failure{Prop: c.Prop, Sig: "prologue-pruned", Msg: "the scripted prologue contains an operation that is not legal: " + c.OpString(o)}
			}
			break
		}
	}
	r.hist = 0
	return r
}

// World gives access to the world (for derived runs).
func (r *Run) World() *ecs.World { return &r.w }

// Model gives access to the model.
func (r *Run) Model() *Model { return r.m }

// Outcome implements wx.Run.
func (r *Run) Outcome() string { return r.outcome }

// Key implements wx.Run.
func (r *Run) Key(buf []byte) []byte {
	buf = r.w.VerifShape(buf, ecs.VerifIdleLockPoolAbstract)
	buf = append(buf, "|H"...)
	for i := range r.m.Slots {
		e := &r.m.Slots[i]
		buf = append(buf, byte(e.H.ID()), byte(e.H.ID()>>8), byte(e.H.Generation()), byte(e.H.Generation()>>8))
		if e.Alive {
			buf = append(buf, 1)
			// the model's view of the entity: an operation that the implementation silently ignores (world unchanged) but the
			// model applies must lead to a new state - otherwise it is a self-loop and the state oracle never sees it
			buf = append(buf, e.Has, byte(e.Target.ID()), byte(e.Target.ID()>>8), byte(e.Target.Generation()), byte(e.Target.Generation()>>8))
			for ci := range r.cfg.Comps {
				if e.Has&(1<<ci) != 0 {
					v := e.Val[ci]
					buf = append(buf, byte(v), byte(v>>8), byte(v>>16), byte(v>>24), byte(v>>32), byte(v>>40), byte(v>>48), byte(v>>56))
				}
			}
		} else {
			buf = append(buf, 0)
		}
	}
	buf = append(buf, "|R"...)
	for _, g := range r.m.Regs {
		buf = append(buf, byte(g.Spec), byte(g.Target.ID()), byte(g.Target.Generation()))
	}
	if r.lastU != nil {
		buf = append(buf, 'U')
	}
	return buf
}

func (r *Run) fail(prop, sig, msg string) *wx.Failure {
	if prop == "" {
		prop = r.cfg.Prop
	}
	return &wx.Failure{Prop: prop, Sig: sig, Msg: msg}
}

// resolve returns the filter to use for a filter ref.
func (r *Run) resolve(ref int8) ecs.Filter {
	spec, ts, plain := decodeRef(ref)
	t := r.m.handle(ts)
	if !plain {
		if i := r.m.regIndex(spec, t); i >= 0 {
			return &r.regs[i].cached
		}
	}
	return r.build(spec, t)
}

func (r *Run) build(spec int, t ecs.Entity) ecs.Filter {
	f := r.cfg.Filters[spec].Build(r.ids)
	if r.cfg.Filters[spec].Rel {
		rf := ecs.NewRelationFilter(f, t)
		return &rf
	}
	return f
}

func (r *Run) idList(cis []int) []ecs.ID {
	out := make([]ecs.ID, len(cis))
	for i, c := range cis {
		out[i] = r.ids[c]
	}
	return out
}

func (r *Run) idl(c int8) []ecs.ID {
	if c < 0 {
		return nil
	}
	return []ecs.ID{r.ids[c]}
}

func (r *Run) compList(cis []int, vals uint64s) []ecs.Component {
	out := make([]ecs.Component, len(cis))
	for i, c := range cis {
		out[i] = ecs.Component{ID: r.ids[c], Comp: newValue(r.cfg.Comps[c], vals[c])}
	}
	return out
}

// observation of one executed operation
type obs struct {
	created  []ecs.Entity
	hasCount bool
	count    int
	visited  []ecs.Entity // entities visited by a Q variant's query
	qErr     string
}

// drain iterates a batch query fully, checking per-position consistency.
func (r *Run) drain(q *ecs.Query, o *obs) {
	cnt := q.Count()
	if !r.w.IsLocked() {
		o.qErr = "world not locked while the batch query is open"
	}
	for _, i := range []int{-1, cnt, cnt + 1} {
		if !panics(func() { q.EntityAt(i) }) && o.qErr == "" {
			o.qErr = fmt.Sprintf("EntityAt(%d) on a batch query with %d entities did not panic", i, cnt)
		}
	}
	i := 0
	for q.Next() {
		e := q.Entity()
		if i < cnt {
			if at := q.EntityAt(i); at != e && o.qErr == "" {
				o.qErr = fmt.Sprintf("EntityAt(%d)=%v but iteration visits %v", i, at, e)
			}
		}
		if o.qErr == "" {
			if r.w.Mask(e) != q.Mask() {
				o.qErr = fmt.Sprintf("query mask differs from world mask for %v", e)
			}
		}
		o.visited = append(o.visited, e)
		i++
	}
	if i != cnt && o.qErr == "" {
		o.qErr = fmt.Sprintf("Count()=%d but %d entities visited", cnt, i)
	}
	if r.w.IsLocked() && o.qErr == "" {
		o.qErr = "world still locked after the batch query was exhausted"
	}
}

// exec performs the operation on the real world. Returns the recovered panic value, if any.
func (r *Run) exec(op wx.Op, o *obs) (pv interface{}) {
	defer func() {
		if x := recover(); x != nil {
			pv = x
		}
	}()
	w := &r.w
	m := r.m
	c := r.cfg
	switch op.K {
	case OpNewEntity:
		o.created = append(o.created, w.NewEntity(r.idList(c.Sets[op.A])...))
	case OpNewEntityDup:
		o.created = append(o.created, w.NewEntity(r.ids[op.A], r.ids[op.A]))
	case OpNewEntityWith:
		comps := c.Sets[op.A]
		o.created = append(o.created, w.NewEntityWith(r.compList(comps, m.creationValues(comps, int(op.B)))...))
	case OpBuilderNew:
		comps := c.Sets[op.A]
		var b *ecs.Builder
		if op.D == 0 {
			b = ecs.NewBuilder(w, r.idList(comps)...)
		} else {
			b = ecs.NewBuilderWith(w, r.compList(comps, m.creationValues(comps, int(op.D)))...)
		}
		if op.B >= 0 {
			b = b.WithRelation(r.ids[op.B])
		}
		if op.C == -2 {
			o.created = append(o.created, b.New())
		} else {
			o.created = append(o.created, b.New(m.handle(op.C)))
		}
	case OpNewBatch, OpNewBatchQ, OpNewBatchZero:
		comps := c.Sets[op.A]
		var b *ecs.Builder
		if op.D == 0 {
			b = ecs.NewBuilder(w, r.idList(comps)...)
		} else {
			b = ecs.NewBuilderWith(w, r.compList(comps, m.creationValues(comps, int(op.D)))...)
		}
		if rel := firstRel(m, comps); rel >= 0 {
			b = b.WithRelation(r.ids[rel])
		}
		tgt := []ecs.Entity{}
		if op.K != OpNewBatchZero && op.C != -2 {
			tgt = append(tgt, m.handle(op.C))
		}
		if op.K == OpNewBatchQ {
			q := b.NewBatchQ(int(op.B), tgt...)
			r.drain(&q, o)
			o.created = append(o.created, o.visited...)
		} else {
			b.NewBatch(int(op.B), tgt...)
			// discover the new handles: alive in the world, unknown to the model
			known := map[ecs.Entity]bool{}
			for i := range m.Slots {
				if m.Slots[i].Alive {
					known[m.Slots[i].H] = true
				}
			}
			q := w.Query(ecs.All())
			for q.Next() {
				if e := q.Entity(); !known[e] {
					o.created = append(o.created, e)
				}
			}
		}
	case OpNewBatchRel:
		ecs.NewBuilder(w, r.idList(c.Sets[op.A])...).WithRelation(r.ids[op.B]).NewBatch(1, m.handle(op.C))
		known := map[ecs.Entity]bool{}
		for i := range m.Slots {
			if m.Slots[i].Alive {
				known[m.Slots[i].H] = true
			}
		}
		q := w.Query(ecs.All())
		for q.Next() {
			if e := q.Entity(); !known[e] {
				o.created = append(o.created, e)
			}
		}
	case OpRemoveEntity:
		w.RemoveEntity(m.Slots[op.A].H)
	case OpAdd:
		w.Add(m.Slots[op.A].H, r.ids[op.B])
	case OpAddTwo:
		w.Add(m.Slots[op.A].H, r.ids[op.B], r.ids[op.C])
	case OpRemoveTwo:
		w.Remove(m.Slots[op.A].H, r.ids[op.B], r.ids[op.C])
	case OpAddNone:
		w.Add(m.Slots[op.A].H)
	case OpRemove:
		w.Remove(m.Slots[op.A].H, r.ids[op.B])
	case OpExchange:
		w.Exchange(m.Slots[op.A].H, r.idl(op.B), r.idl(op.C))
	case OpAssign:
		h := m.Slots[op.A].H
		w.Assign(h, ecs.Component{ID: r.ids[op.B], Comp: newValue(c.Comps[op.B], r.tokFor(op))})
	case OpSet:
		h := m.Slots[op.A].H
		w.Set(h, r.ids[op.B], newValue(c.Comps[op.B], r.tokFor(op)))
	case OpWriteGet:
		h := m.Slots[op.A].H
		p := w.Get(h, r.ids[op.B])
		writeValue(c.Comps[op.B], p, r.tokFor(op))
	case OpWriteQuery:
		h := m.Slots[op.A].H
		q := w.Query(ecs.All(r.ids[op.B]))
		for q.Next() {
			if q.Entity() == h {
				writeValue(c.Comps[op.B], q.Get(r.ids[op.B]), r.tokFor(op))
			}
		}
	case OpRelGet:
		w.Relations().Get(m.Slots[op.A].H, r.ids[op.B])
	case OpAssignNone:
		w.Assign(m.Slots[op.A].H)
	case OpRelExchangeBad:
		w.Relations().Exchange(m.Slots[op.A].H, r.idl(op.B), nil, r.ids[op.B], m.handle(op.D))
	case OpBuilderNoRel:
		b := ecs.NewBuilder(w, r.idList(c.Sets[op.A])...)
		t := m.handle(op.D)
		switch op.B {
		case 0:
			b.New(t)
		case 1:
			b.NewBatch(1, t)
		case 2:
			q := b.NewBatchQ(1, t)
			q.Close()
		default:
			b.Add(m.Slots[op.C].H, t)
		}
	case OpReadDead:
		if op.C == 0 {
			w.Has(m.Slots[op.A].H, r.ids[op.B])
		} else {
			w.Get(m.Slots[op.A].H, r.ids[op.B])
		}
	case OpRelSet:
		w.Relations().Set(m.Slots[op.A].H, r.ids[op.B], m.handle(op.C))
	case OpRelExchange:
		rel := m.relFor(int(op.A), op.B)
		w.Relations().Exchange(m.Slots[op.A].H, r.idl(op.B), r.idl(op.C), r.ids[rel], m.handle(op.D))
	case OpRelExchangeNone:
		rel := m.relFor(int(op.A), -1)
		w.Relations().Exchange(m.Slots[op.A].H, nil, nil, r.ids[rel], m.handle(op.D))
	case OpBuilderAdd:
		comps := c.Sets[op.B]
		var b *ecs.Builder
		if op.D == 0 {
			b = ecs.NewBuilder(w, r.idList(comps)...)
		} else {
			b = ecs.NewBuilderWith(w, r.compList(comps, m.creationValues(comps, int(op.D)))...)
		}
		if rel := firstRel(m, comps); rel >= 0 {
			b = b.WithRelation(r.ids[rel])
		}
		if op.C == -2 {
			b.Add(m.Slots[op.A].H)
		} else {
			b.Add(m.Slots[op.A].H, m.handle(op.C))
		}
	case OpBatchRemoveEnt:
		o.count, o.hasCount = w.Batch().RemoveEntities(r.resolve(op.A)), true
	case OpBatchAdd:
		o.count, o.hasCount = w.Batch().Add(r.resolve(op.A), r.ids[op.B]), true
	case OpBatchRemove:
		o.count, o.hasCount = w.Batch().Remove(r.resolve(op.A), r.ids[op.B]), true
	case OpBatchExchange:
		o.count, o.hasCount = w.Batch().Exchange(r.resolve(op.A), r.idl(op.B), r.idl(op.C)), true
	case OpBatchSetRel:
		o.count, o.hasCount = w.Batch().SetRelation(r.resolve(op.A), r.ids[op.B], m.handle(op.C)), true
	case OpRelExchangeBatch:
		rel := m.relFor(-1, op.B)
		o.count, o.hasCount = w.Relations().ExchangeBatch(r.resolve(op.A), r.idl(op.B), r.idl(op.C), r.ids[rel], m.handle(op.D)), true
	case OpBatchAddQ:
		q := w.Batch().AddQ(r.resolve(op.A), r.ids[op.B])
		r.drain(&q, o)
	case OpBatchRemoveQ:
		q := w.Batch().RemoveQ(r.resolve(op.A), r.ids[op.B])
		r.drain(&q, o)
	case OpBatchExchangeQ:
		q := w.Batch().ExchangeQ(r.resolve(op.A), r.idl(op.B), r.idl(op.C))
		r.drain(&q, o)
	case OpBatchSetRelQ:
		q := w.Batch().SetRelationQ(r.resolve(op.A), r.ids[op.B], m.handle(op.C))
		r.drain(&q, o)
	case OpRelExchangeBatchQ:
		rel := m.relFor(-1, op.B)
		q := w.Relations().ExchangeBatchQ(r.resolve(op.A), r.idl(op.B), r.idl(op.C), r.ids[rel], m.handle(op.D))
		r.drain(&q, o)
	case OpRegister:
		spec, ts, _ := decodeRef(op.A)
		f := r.build(spec, m.handle(ts))
		cf := w.Cache().Register(f)
		r.regs = append(r.regs, regState{plain: f, cached: cf})
	case OpRegisterTwice:
		w.Cache().Register(&r.regs[op.A].cached)
	case OpUnregister:
		if op.A < 0 {
			w.Cache().Unregister(r.lastU)
			return
		}
		g := r.regs[op.A]
		back := w.Cache().Unregister(&g.cached)
		if !sameFilter(back, g.plain) {
			o.qErr = "Unregister did not return the original filter"
		}
		r.regs = append(append([]regState{}, r.regs[:op.A]...), r.regs[op.A+1:]...)
		r.lastU = &g.cached
	case OpReset:
		w.Reset()
	default:
		panic(fmt.Sprintf("exec: unknown op %d", op.K))
	}
	return nil
}

// tokFor returns the token a value-writing operation stores (see Model.nextVal).
func (r *Run) tokFor(op wx.Op) uint64 {
	return r.m.nextTok(int(op.A), int(op.B))
}

func sameFilter(a, b ecs.Filter) bool {
	defer func() { _ = recover() }()
	return a == b
}

func panicClass(pv interface{}) string {
	s := fmt.Sprint(pv)
	if _, ok := pv.(error); ok {
		// runtime errors: index out of range, nil dereference ...
		if i := strings.Index(s, "["); i > 0 {
			s = s[:i]
		}
		return "runtime:" + strings.TrimSpace(s)
	}
	if len(s) > 40 {
		s = s[:40]
	}
	return s
}

// Apply implements wx.Run.
func (r *Run) Apply(op wx.Op) wx.Result {
	if r.poisoned {
		return wx.Result{Prune: true}
	}
	m2 := r.m.clone()
	if op.K == OpUnregister && op.A < 0 {
		// unregister twice
		var o obs
		pv := r.exec(op, &o)
		r.outcome = "illegal:unregister-twice"
		if pv == nil {
			r.poisoned = true
			return wx.Result{Prune: true, Fail: r.fail("C10", "nopanic:Cache.Unregister:unregister-twice", "unregistering a filter twice did not panic")}
		}
		return wx.Result{}
	}
	ex := m2.Step(op)
	kind := opNames[op.K]
	if r.lis != nil {
		r.lis.begin(r.m)
	}
	var o obs
	gc := r.gcEvery
	r.gcEvery = false
	if gc {
		runtime.GC()
	}
	pv := r.exec(op, &o)
	if gc {
		runtime.GC()
	}
	switch ex.Class {
	case ClsUnspecified:
		r.outcome = "unspecified"
		r.poisoned = true
		return wx.Result{Prune: true}
	case ClsMustPanic:
		r.outcome = "illegal:" + ex.Why
		if pv == nil {
			r.poisoned = true
			prop := "C10"
			if ex.Why == "dead-target" || ex.Why == "second-relation" {
				prop = "C05"
			}
			return wx.Result{Prune: true, Fail: r.fail(prop, "nopanic:"+kind+":"+ex.Why,
				fmt.Sprintf("%s is illegal (%s) but did not panic", r.cfg.OpString(op), ex.Why))}
		}
		if strings.HasPrefix(ex.Why, "batch:") || r.w.IsLocked() {
			// batch failures: only the panic is asserted.
			r.poisoned = true
			return wx.Result{Prune: true}
		}
		if r.lis != nil && len(r.lis.events) > 0 {
			r.poisoned = true
			return wx.Result{Prune: true, Fail: r.fail("C10", "event-on-failed-call:"+kind, fmt.Sprintf("%s failed but emitted %d event(s)", r.cfg.OpString(op), len(r.lis.events)))}
		}
		// the model is unchanged; the state oracle will compare the world against it.
		return wx.Result{}
	}
	// the statistics object is cached inside the world and refreshed incrementally: poll it after every operation, as a
	// monitoring system would (the state oracle compares it with the model)
	if r.cfg.Oracles&OState != 0 && !r.w.IsLocked() {
		func() {
			defer func() { _ = recover() }()
			_ = r.w.Stats()
		}()
	}
	// ClsOK
	if pv != nil {
		r.poisoned = true
		r.outcome = "panic"
		return wx.Result{Prune: true, Fail: r.fail("", "panic:"+kind+":"+panicClass(pv),
			fmt.Sprintf("legal call %s panicked: %v", r.cfg.OpString(op), pv))}
	}
	r.outcome = "ok"
	bad := func(prop, sig, msg string) wx.Result {
		r.poisoned = true
		return wx.Result{Prune: true, Fail: r.fail(prop, sig, r.cfg.OpString(op)+": "+msg)}
	}
	if o.qErr != "" {
		return bad("C03", "batchquery:"+kind, o.qErr)
	}
	// new handles
	if len(o.created) != ex.NewN {
		return bad("C02", "created-count:"+kind, fmt.Sprintf("expected %d new entities, observed %d", ex.NewN, len(o.created)))
	}
	for i, h := range o.created {
		if h.IsZero() {
			return bad("C02", "zero-handle:"+kind, "creation returned the zero entity")
		}
		for j := 0; j < ex.NewFrom+i; j++ {
			if m2.Slots[j].H == h {
				return bad("C02", "handle-reissued:"+kind, fmt.Sprintf("handle %v was issued before in this epoch (slot %d)", h, j))
			}
		}
		m2.Slots[ex.NewFrom+i].H = h
	}
	// values written with handle-specific tokens for entities created here: none (creation uses handle-independent tokens)
	if ex.Count >= 0 && o.hasCount && o.count != ex.Count {
		return bad("C08", "batch-count:"+kind, fmt.Sprintf("returned %d, but %d entities matched", o.count, ex.Count))
	}
	if ex.Affected != nil || isQ(op.K) {
		want := map[ecs.Entity]int{}
		for _, s := range ex.Affected {
			want[m2.Slots[s].H]++
		}
		for _, e := range o.visited {
			want[e]--
		}
		for e, n := range want {
			if n != 0 {
				return bad("C08", "batch-query-set:"+kind, fmt.Sprintf("the returned query visited %v, expected the affected entities %v (entity %v off by %d)", o.visited, handles(m2, ex.Affected), e, -n))
			}
		}
	}
	old := r.m
	r.m = m2
	if op.K == OpReset {
		r.lastU = nil
	}
	if r.lis != nil {
		if f := r.lis.verify(old, m2, op); f != nil {
			r.poisoned = true
			return wx.Result{Prune: true, Fail: f}
		}
	}
	if op.K == OpReset {
		if r.w.IsLocked() {
			return bad("C15", "reset-locked", "world locked after Reset")
		}
	}
	if r.cfg.Oracles&OTranscript != 0 {
		if pv := catch(func() { r.transcript(op, &o) }); pv != nil {
			return bad("", "oracle-panic:"+panicClass(pv), fmt.Sprintf("reading the world through the public API panicked: %v", pv))
		}
	}
	return wx.Result{}
}

func isQ(k uint8) bool {
	switch k {
	case OpBatchAddQ, OpBatchRemoveQ, OpBatchExchangeQ, OpBatchSetRelQ, OpRelExchangeBatchQ:
		return true
	}
	return false
}

func handles(m *Model, slots []int) []ecs.Entity {
	out := make([]ecs.Entity, len(slots))
	for i, s := range slots {
		out[i] = m.Slots[s].H
	}
	return out
}

// ---------------------------------------------------------------- state oracle

// Check implements wx.Run.
func (r *Run) Check() (f *wx.Failure) {
	if r.prologueFail != nil {
		return r.prologueFail
	}
	if r.poisoned {
		return nil
	}
	defer func() {
		if x := recover(); x != nil {
			f = r.fail("", "oracle-panic:"+panicClass(x), fmt.Sprintf("reading the world through the public API panicked: %v", x))
		}
	}()
	or := r.cfg.Oracles
	// All oracle groups are evaluated; a failure of the property this scenario belongs to is reported in preference
	// to an earlier one of another property (several oracles usually see the same defect).
	var found []*wx.Failure
	if or&OInv != 0 && !noInv {
		if err := r.w.VerifCheckInvariants(); err != nil {
			msg := err.Error()
			prop := "C01"
			switch {
			case strings.HasPrefix(msg, "cache:"):
				prop = "C07"
			case strings.HasPrefix(msg, "pool:"):
				prop = "C02"
			case strings.HasPrefix(msg, "node "):
				prop = "C06"
			}
			found = append(found, r.fail(prop, "invariant:"+invClass(msg), "internal structure corrupted: "+msg))
		}
	}
	if or&OState != 0 {
		if f := r.checkStateSafe(); f != nil {
			found = append(found, f)
		}
	}
	if or&OFilters != 0 {
		if f := r.checkFiltersSafe(or&OIter != 0); f != nil {
			found = append(found, f)
		}
	}
	if or&OIter != 0 && or&OState != 0 && len(found) == 0 {
		// the iteration oracle used (and wrote into) everything the open queries handed out: the world is still what the
		// model says, and still consistent
		if f := r.checkStateSafe(); f != nil {
			f.Msg = "after iterating all filters and using the query accessors: " + f.Msg
			found = append(found, f)
		} else if or&OInv != 0 && !noInv {
			if err := r.w.VerifCheckInvariants(); err != nil {
				found = append(found, r.fail("C01", "invariant-after-iteration:"+invClass(err.Error()), "after iterating all filters and using the query accessors: internal structure corrupted: "+err.Error()))
			}
		}
	}
	for _, f := range found {
		if f.Prop == r.cfg.Prop {
			return f
		}
	}
	if r.cfg.Prefer != nil {
		for _, f := range found {
			if r.cfg.Prefer(f) {
				return f
			}
		}
	}
	if len(found) > 0 {
		return found[0]
	}
	return nil
}

func (r *Run) checkStateSafe() (f *wx.Failure) {
	defer func() {
		if x := recover(); x != nil {
			f = r.fail("", "oracle-panic:"+panicClass(x), fmt.Sprintf("reading the world through the public API panicked: %v", x))
		}
	}()
	return r.checkState()
}

func (r *Run) checkFiltersSafe(deep bool) (f *wx.Failure) {
	defer func() {
		if x := recover(); x != nil {
			f = r.fail("", "oracle-panic:"+panicClass(x), fmt.Sprintf("querying the world through the public API panicked: %v", x))
		}
	}()
	return r.checkFilters(deep)
}

// noInv disables the structural invariant oracle (VERIF_NO_INV=1), to demonstrate that defects are also
// caught through the public API alone.
var noInv = os.Getenv("VERIF_NO_INV") != ""

// gcEveryOp forces a garbage collection before and after every operation (VERIF_GC_EVERY_OP=1).
var gcEveryOp = os.Getenv("VERIF_GC_EVERY_OP") != ""

func invClass(s string) string {
	// keep the words, drop numbers and bracketed details
	var b strings.Builder
	depth := 0
	for _, c := range s {
		switch {
		case c == '(' || c == '[' || c == '{':
			depth++
		case c == ')' || c == ']' || c == '}':
			depth--
		case depth > 0:
		case c >= '0' && c <= '9':
		default:
			b.WriteRune(c)
		}
	}
	out := strings.Join(strings.Fields(b.String()), " ")
	if len(out) > 70 {
		out = out[:70]
	}
	return out
}

func (r *Run) checkState() *wx.Failure {
	w := &r.w
	m := r.m
	if w.Alive(ecs.Entity{}) {
		return r.fail("C02", "zero-alive", "the zero entity is reported alive")
	}
	alive := 0
	seenID := map[uint32]int{}
	for s := range m.Slots {
		e := &m.Slots[s]
		got := w.Alive(e.H)
		if got != e.Alive {
			return r.fail("C02", fmt.Sprintf("alive-mismatch:%t", got), fmt.Sprintf("Alive(%v) = %t, expected %t (slot %d)", e.H, got, e.Alive, s))
		}
		if !e.Alive {
			continue
		}
		alive++
		if o, dup := seenID[e.H.ID()]; dup {
			return r.fail("C02", "shared-id", fmt.Sprintf("alive entities in slots %d and %d share id %d", o, s, e.H.ID()))
		}
		seenID[e.H.ID()] = s
		mask := w.Mask(e.H)
		ids := w.Ids(e.H)
		nids := 0
		for ci, k := range r.cfg.Comps {
			id := r.ids[ci]
			want := e.Has&(1<<ci) != 0
			if w.Has(e.H, id) != want {
				return r.fail("C01", "has-mismatch", fmt.Sprintf("Has(%v, %s) = %t, expected %t", e.H, k, !want, want))
			}
			if mask.Get(id) != want {
				return r.fail("C01", "mask-mismatch", fmt.Sprintf("Mask(%v) has %s = %t, expected %t", e.H, k, !want, want))
			}
			p := w.Get(e.H, id)
			if (p != nil) != want {
				return r.fail("C01", "get-mismatch", fmt.Sprintf("Get(%v, %s) non-nil = %t, expected %t", e.H, k, p != nil, want))
			}
			if pu := w.GetUnchecked(e.H, id); pu != p {
				return r.fail("C01", "getunchecked-mismatch", fmt.Sprintf("GetUnchecked(%v, %s) differs from Get", e.H, k))
			}
			if want {
				nids++
				found := false
				for _, x := range ids {
					if x == id {
						found = true
					}
				}
				if !found {
					return r.fail("C01", "ids-mismatch", fmt.Sprintf("Ids(%v) = %v lacks %s", e.H, ids, k))
				}
				if k.HasValue() {
					v, err := readValue(k, p)
					if err != nil {
						return r.fail("C01", "value-torn", fmt.Sprintf("component %s of %v: %v", k, e.H, err))
					}
					if v != e.Val[ci] {
						sig := "value-mismatch"
						if e.Val[ci] == 0 {
							sig = "value-not-zero"
						}
						return r.fail("C01", sig, fmt.Sprintf("component %s of %v holds %#x, expected %#x", k, e.H, v, e.Val[ci]))
					}
				}
			}
		}
		if len(ids) != nids || mask.TotalBitsSet() != nids {
			return r.fail("C01", "ids-extra", fmt.Sprintf("Ids(%v) = %v, expected %d components", e.H, ids, nids))
		}
		// World.Ids returns a copy "that can be manipulated safely": do so (anything the library still shares with it shows up
		// in the next comparisons)
		scribble(ids)
		if rel := m.relOf(e.Has); rel >= 0 {
			t := w.Relations().Get(e.H, r.ids[rel])
			if t != e.Target {
				return r.fail("C05", "target-mismatch", fmt.Sprintf("Relations.Get(%v, %s) = %v, expected %v", e.H, r.cfg.Comps[rel], t, e.Target))
			}
			if tu := w.Relations().GetUnchecked(e.H, r.ids[rel]); tu != e.Target {
				return r.fail("C05", "target-unchecked-mismatch", fmt.Sprintf("Relations.GetUnchecked(%v) = %v, expected %v", e.H, tu, e.Target))
			}
		}
	}
	st := w.Stats()
	if used := st.Entities.Used; used != alive {
		return r.fail("C02", "count-mismatch", fmt.Sprintf("Stats().Entities.Used = %d, expected %d alive", used, alive))
	}
	// the node / table statistics describe the same world: entities per component set as in the model, tables add up
	{
		perSet := map[uint8]int{}
		for s := range m.Slots {
			if m.Slots[s].Alive {
				perSet[m.Slots[s].Has]++
			}
		}
		total, activeNodes := 0, 0
		for ni := range st.Nodes {
			nd := &st.Nodes[ni]
			var has uint8
			foreign := false
			for _, cid := range nd.ComponentIDs {
				ci := -1
				for k := range r.ids {
					if idNum(r.ids[k]) == cid {
						ci = k
					}
				}
				if ci < 0 {
					foreign = true
				} else {
					has |= 1 << ci
				}
			}
			sum, act := 0, 0
			for ai := range nd.Archetypes {
				a := &nd.Archetypes[ai]
				if a.IsActive {
					act++
					sum += a.Size
				} else if a.Size != 0 {
					return r.fail("", "stats:inactive-table-size", fmt.Sprintf("Stats(): node %v lists an inactive table holding %d entities", nd.ComponentIDs, a.Size))
				}
				if a.Size > a.Capacity {
					return r.fail("", "stats:capacity", fmt.Sprintf("Stats(): node %v lists a table with size %d > capacity %d", nd.ComponentIDs, a.Size, a.Capacity))
				}
			}
			if nd.IsActive {
				activeNodes++
			}
			if sum != nd.Size || act != nd.ActiveArchetypeCount || len(nd.Archetypes) != nd.ArchetypeCount {
				return r.fail("", "stats:node-sums", fmt.Sprintf("Stats(): node %v reports size %d / %d active of %d tables, its table list adds up to %d / %d active of %d",
					nd.ComponentIDs, nd.Size, nd.ActiveArchetypeCount, nd.ArchetypeCount, sum, act, len(nd.Archetypes)))
			}
			if !foreign {
				if nd.Size != perSet[has] {
					return r.fail("", "stats:node-size", fmt.Sprintf("Stats(): node %v holds %d entities, %d entities have exactly these components", nd.ComponentIDs, nd.Size, perSet[has]))
				}
			}
			total += nd.Size
		}
		if total != alive || activeNodes != st.ActiveNodeCount {
			return r.fail("", "stats:totals", fmt.Sprintf("Stats(): nodes hold %d entities (%d alive), %d nodes flagged active (ActiveNodeCount %d)", total, alive, activeNodes, st.ActiveNodeCount))
		}
	}
	q := w.Query(ecs.All())
	cnt := q.Count()
	q.Close()
	if cnt != alive {
		return r.fail("C02", "count-mismatch-query", fmt.Sprintf("Query(All()).Count() = %d, expected %d alive", cnt, alive))
	}
	if w.IsLocked() {
		return r.fail("C09", "locked-at-rest", "world is locked although no query is open")
	}
	return nil
}

// collect iterates a filter and returns the visited entities.
func (r *Run) collect(f ecs.Filter) []ecs.Entity {
	out := []ecs.Entity{}
	q := r.w.Query(f)
	for q.Next() {
		out = append(out, q.Entity())
	}
	return out
}

func (r *Run) expectSet(spec int, t ecs.Entity) map[ecs.Entity]bool {
	want := map[ecs.Entity]bool{}
	for i := range r.m.Slots {
		if r.m.Slots[i].Alive && r.m.matches(spec, t, &r.m.Slots[i]) {
			want[r.m.Slots[i].H] = true
		}
	}
	return want
}

func sameSet(got []ecs.Entity, want map[ecs.Entity]bool) string {
	seen := map[ecs.Entity]bool{}
	for _, e := range got {
		if seen[e] {
			return fmt.Sprintf("visits %v twice", e)
		}
		seen[e] = true
		if !want[e] {
			return fmt.Sprintf("visits %v which does not match", e)
		}
	}
	if len(got) != len(want) {
		return fmt.Sprintf("visits %d entities, %d match", len(got), len(want))
	}
	return ""
}

func sigWord(s string) string {
	f := strings.Fields(s)
	if len(f) == 0 {
		return ""
	}
	if len(f) > 2 && f[0] == "visits" && f[2] == "entities," {
		return "count"
	}
	switch f[len(f)-1] {
	case "twice":
		return "twice"
	case "match":
		return "non-matching"
	}
	return f[0]
}

func (r *Run) checkFilters(deep bool) *wx.Failure {
	// every menu filter, for every target of the slot table (and zero)
	targets := []ecs.Entity{{}}
	for i := range r.m.Slots {
		targets = append(targets, r.m.Slots[i].H)
	}
	for spec := range r.cfg.Filters {
		fs := &r.cfg.Filters[spec]
		ts := targets[:1]
		if fs.Rel {
			ts = targets
		}
		for _, t := range ts {
			f := r.build(spec, t)
			want := r.expectSet(spec, t)
			got := r.collect(f)
			if fs.SelfOnly {
				if deep {
					if f := r.deepIter(fs.Name, func() ecs.Query { return r.w.Query(r.build(spec, t)) }, got); f != nil {
						return f
					}
				}
				continue
			}
			if s := sameSet(got, want); s != "" {
				prop := "C03"
				if fs.Rel {
					prop = "C05"
				}
				return r.fail(prop, "query-set:"+filterKind(fs)+":"+sigWord(s), fmt.Sprintf("Query(%s target %v) %s; visited %v", fs.Name, t, s, got))
			}
			if deep {
				if f := r.deepIter(fs.Name, func() ecs.Query { return r.w.Query(r.build(spec, t)) }, got); f != nil {
					return f
				}
			}
		}
	}
	for i, g := range r.m.Regs {
		want := r.expectSet(g.Spec, g.Target)
		got := r.collect(&r.regs[i].cached)
		name := r.cfg.Filters[g.Spec].Name
		if s := sameSet(got, want); s != "" {
			return r.fail("C07", "cached-set:"+filterKind(&r.cfg.Filters[g.Spec])+":"+sigWord(s), fmt.Sprintf("Query(registered %s target %v) %s; visited %v, plain filter selects %v", name, g.Target, s, got, r.collect(r.regs[i].plain)))
		}
		q := r.w.Query(&r.regs[i].cached)
		cnt := q.Count()
		q.Close()
		if cnt != len(want) {
			return r.fail("C07", "cached-count:"+filterKind(&r.cfg.Filters[g.Spec]), fmt.Sprintf("Query(registered %s target %v).Count() = %d, expected %d", name, g.Target, cnt, len(want)))
		}
		if deep {
			i := i
			if f := r.deepIter("registered "+name, func() ecs.Query { return r.w.Query(&r.regs[i].cached) }, got); f != nil {
				return f
			}
		}
	}
	return nil
}

func filterKind(f *FSpec) string {
	if f.Rel {
		return "relation"
	}
	return "mask"
}

// deepIter checks Count/EntityAt/Next/Step consistency of a query, given the entities of a plain iteration.
func (r *Run) deepIter(name string, mk func() ecs.Query, seq []ecs.Entity) *wx.Failure {
	n := len(seq)
	w := &r.w
	bad := func(sig, msg string) *wx.Failure {
		return r.fail("C03", "iter:"+sig, fmt.Sprintf("query %s: %s (plain iteration visits %v)", name, msg, seq))
	}
	// Count and EntityAt, before iteration
	q := mk()
	if c := q.Count(); c != n {
		q.Close()
		return bad("count", fmt.Sprintf("Count() = %d but iteration visits %d", c, n))
	}
	for i := 0; i < n; i++ {
		if e := q.EntityAt(i); e != seq[i] {
			q.Close()
			return bad("entityat", fmt.Sprintf("EntityAt(%d) = %v, iteration visits %v there", i, e, seq[i]))
		}
	}
	for _, i := range []int{-1, n} {
		if !panics(func() { q.EntityAt(i) }) {
			q.Close()
			return bad("entityat-range", fmt.Sprintf("EntityAt(%d) did not panic with %d entities", i, n))
		}
	}
	for _, k := range []int{0, -1} {
		if !panics(func() { q.Step(k) }) {
			q.Close()
			return r.fail("C10", "nopanic:Query.Step", fmt.Sprintf("query %s: Step(%d) did not panic", name, k))
		}
	}
	// iterate with Next after Count/EntityAt, checking accessors at every position
	i := 0
	for q.Next() {
		if i >= n || q.Entity() != seq[i] {
			return bad("next-after-count", fmt.Sprintf("iteration after Count/EntityAt diverges at position %d", i))
		}
		e := q.Entity()
		if q.Mask() != w.Mask(e) {
			return bad("mask", fmt.Sprintf("Mask() at %v differs from the world's", e))
		}
		qi, wi := q.Ids(), w.Ids(e)
		if len(qi) != len(wi) {
			return bad("ids", fmt.Sprintf("Ids() at %v = %v, world says %v", e, qi, wi))
		}
		for k := range qi {
			if qi[k] != wi[k] {
				return bad("ids", fmt.Sprintf("Ids() at %v = %v, world says %v", e, qi, wi))
			}
		}
		// both are documented to be copies the caller may modify
		scribble(qi)
		scribble(wi)
		for ci := range r.cfg.Comps {
			id := r.ids[ci]
			if q.Has(id) != w.Has(e, id) {
				return bad("has", fmt.Sprintf("Has(%s) at %v differs from the world's", r.cfg.Comps[ci], e))
			}
			if q.Get(id) != w.Get(e, id) {
				return bad("get", fmt.Sprintf("Get(%s) at %v differs from the world's", r.cfg.Comps[ci], e))
			}
		}
		if s := r.slotOf(e); s >= 0 {
			rel := r.m.relOf(r.m.Slots[s].Has)
			if rel >= 0 {
				if t := q.Relation(r.ids[rel]); t != w.Relations().Get(e, r.ids[rel]) {
					return bad("relation", fmt.Sprintf("Relation() at %v = %v differs from the world's", e, t))
				}
			}
			// Query.Relation for a component the entity lacks, or that is not its relation component, is documented to panic
			for ci := range r.cfg.Comps {
				if ci == rel {
					continue
				}
				id := r.ids[ci]
				if !panics(func() { q.Relation(id) }) {
					q.Close()
					return r.fail("C10", "nopanic:Query.Relation", fmt.Sprintf("query %s: Relation(%s) at %v (which has no such relation component) did not panic", name, r.cfg.Comps[ci], e))
				}
			}
		}
		i++
	}
	if i != n {
		return bad("next-after-count", fmt.Sprintf("iteration after Count/EntityAt visits %d entities", i))
	}
	if w.IsLocked() {
		return r.fail("C09", "iter:lock-after-exhaustion", "world still locked after query exhaustion")
	}
	// all compositions of Next/Step: sequences of step sizes summing past the end. For n <= 5 all compositions, else single step sizes.
	var comps [][]int
	if n <= 5 {
		var rec func(rem int, cur []int)
		rec = func(rem int, cur []int) {
			// rem = positions remaining until one past the end (n+1 total advance needed to exhaust)
			if rem == 0 {
				comps = append(comps, append([]int{}, cur...))
				return
			}
			for k := 1; k <= rem; k++ {
				rec(rem-k, append(cur, k))
			}
		}
		rec(n+1, nil)
	} else {
		for k := 1; k <= n+1; k++ {
			c := []int{}
			for tot := 0; tot < n+1; tot += k {
				c = append(c, k)
			}
			comps = append(comps, c)
		}
	}
	for _, comp := range comps {
		q := mk()
		pos := -1
		for si, k := range comp {
			var ok bool
			if k == 1 && si%2 == 0 {
				ok = q.Next()
			} else {
				ok = q.Step(k)
			}
			pos += k
			if pos >= n {
				if ok {
					q.Close()
					return bad("step-overrun", fmt.Sprintf("steps %v: advancing past the end returned true", comp))
				}
				if w.IsLocked() {
					return r.fail("C09", "iter:lock-after-step-exhaustion", fmt.Sprintf("steps %v: world still locked after exhaustion", comp))
				}
				break
			}
			if !ok {
				return bad("step-early-end", fmt.Sprintf("steps %v: ended at position %d of %d", comp, pos, n))
			}
			if e := q.Entity(); e != seq[pos] {
				q.Close()
				return bad("step-position", fmt.Sprintf("steps %v: at position %d got %v, expected %v", comp, pos, e, seq[pos]))
			}
		}
		if w.IsLocked() {
			q.Close()
			return bad("step-no-exhaustion", fmt.Sprintf("steps %v: query not closed", comp))
		}
	}
	return nil
}

func panics(f func()) (p bool) {
	defer func() {
		if recover() != nil {
			p = true
		}
	}()
	f()
	return false
}

func (r *Run) slotOf(h ecs.Entity) int {
	for i := range r.m.Slots {
		if r.m.Slots[i].H == h && r.m.Slots[i].Alive {
			return i
		}
	}
	return -1
}

// ---------------------------------------------------------------- events

type recEvent struct {
	e        ecs.EntityEvent
	added    []ecs.ID
	removed  []ecs.ID
	oldRel   int // ecs id, -1 nil
	newRel   int
	alive    bool
	locked   bool
	maskAt   ecs.Mask
	maskOK   bool
	targetAt ecs.Entity
	targetOK bool
	others   []otherAt // what the other entities look like at delivery (non-removal events)
	vals     []valAt   // component values of the entity at delivery (non-removal events)
}

type otherAt struct {
	slot   int
	mask   ecs.Mask
	target ecs.Entity
	hasTgt bool
}

type valAt struct {
	ci  int
	val uint64
	err error
}

type recListener struct {
	r      *Run
	events []recEvent
	subs   event.Subscription
	comps  *ecs.Mask
	all    bool
}

func (l *recListener) begin(m *Model) { l.events = l.events[:0] }

func (l *recListener) Subscriptions() event.Subscription { return event.All }
func (l *recListener) Components() *ecs.Mask             { return nil }

func (l *recListener) Notify(w *ecs.World, e ecs.EntityEvent) {
	re := recEvent{e: e, oldRel: -1, newRel: -1}
	re.added = append([]ecs.ID{}, e.AddedIDs...)
	re.removed = append([]ecs.ID{}, e.RemovedIDs...)
	if e.OldRelation != nil {
		re.oldRel = int(idNum(*e.OldRelation))
	}
	if e.NewRelation != nil {
		re.newRel = int(idNum(*e.NewRelation))
	}
	re.locked = w.IsLocked()
	func() {
		defer func() { _ = recover() }()
		re.alive = w.Alive(e.Entity)
		re.maskAt = w.Mask(e.Entity)
		re.maskOK = true
		if e.NewRelation != nil && !e.Contains(event.EntityRemoved) {
			re.targetAt = w.Relations().Get(e.Entity, *e.NewRelation)
			re.targetOK = true
		}
		if e.Contains(event.EntityRemoved) {
			return
		}
		r := l.r
		for ci, k := range r.cfg.Comps {
			if k.HasValue() && re.maskAt.Get(r.ids[ci]) {
				v, err := readValue(k, w.Get(e.Entity, r.ids[ci]))
				re.vals = append(re.vals, valAt{ci: ci, val: v, err: err})
			}
		}
		// the model still holds the state before the operation
		for s := range r.m.Slots {
			me := &r.m.Slots[s]
			if !me.Alive || me.H == e.Entity || !w.Alive(me.H) {
				continue
			}
			o := otherAt{slot: s, mask: w.Mask(me.H)}
			for ci, k := range r.cfg.Comps {
				if k.IsRel() && o.mask.Get(r.ids[ci]) {
					o.target, o.hasTgt = w.Relations().Get(me.H, r.ids[ci]), true
				}
			}
			re.others = append(re.others, o)
		}
	}()
	l.events = append(l.events, re)
}

func idNum(id ecs.ID) uint8 {
	return *(*uint8)(unsafe.Pointer(&id))
}

// verify compares the recorded events of one operation with the model diff.
func (l *recListener) verify(old, neu *Model, op wx.Op) *wx.Failure {
	r := l.r
	kind := opNames[op.K]
	bad := func(sig, msg string) *wx.Failure {
		return r.fail("C11", "event:"+kind+":"+sig, r.cfg.OpString(op)+": "+msg)
	}
	type exp struct {
		h                  ecs.Entity
		added, removed     uint8
		oldRel, newRel     int // ci or -1
		oldTarget, newTgt  ecs.Entity
		bits               event.Subscription
		removal            bool
		newMask, oldMaskCI uint8
	}
	want := []exp{}
	if op.K == OpReset {
		// Reset is not an entity operation; whether it notifies is not specified.
		_ = want
		return nil
	}
	for s := range neu.Slots {
		n := &neu.Slots[s]
		var o *MEnt
		if s < len(old.Slots) {
			o = &old.Slots[s]
		}
		switch {
		case o == nil && n.Alive:
			x := exp{h: n.H, added: n.Has, oldRel: -1, newRel: neu.relOf(n.Has), newTgt: n.Target, newMask: n.Has}
			x.bits = event.EntityCreated
			if n.Has != 0 {
				x.bits |= event.ComponentAdded
			}
			if x.newRel >= 0 {
				x.bits |= event.RelationChanged | event.TargetChanged
			}
			want = append(want, x)
		case o != nil && o.Alive && !n.Alive:
			x := exp{h: o.H, removed: o.Has, oldRel: old.relOf(o.Has), newRel: -1, oldTarget: o.Target, removal: true, oldMaskCI: o.Has}
			x.bits = event.EntityRemoved
			if o.Has != 0 {
				x.bits |= event.ComponentRemoved
			}
			if x.oldRel >= 0 {
				x.bits |= event.RelationChanged | event.TargetChanged
			}
			want = append(want, x)
		case o != nil && o.Alive && n.Alive:
			if o.Has == n.Has && o.Target == n.Target {
				continue
			}
			x := exp{h: n.H, added: n.Has &^ o.Has, removed: o.Has &^ n.Has, oldRel: old.relOf(o.Has), newRel: neu.relOf(n.Has), oldTarget: o.Target, newTgt: n.Target, newMask: n.Has}
			if x.added != 0 {
				x.bits |= event.ComponentAdded
			}
			if x.removed != 0 {
				x.bits |= event.ComponentRemoved
			}
			relCh := x.oldRel != x.newRel
			if relCh {
				x.bits |= event.RelationChanged
			}
			if relCh || o.Target != n.Target {
				x.bits |= event.TargetChanged
			}
			want = append(want, x)
		}
	}
	if len(l.events) != len(want) {
		sig := "missing"
		if len(l.events) > len(want) {
			sig = "extra"
		}
		return bad(sig, fmt.Sprintf("%d event(s) delivered, %d entity change(s) happened", len(l.events), len(want)))
	}
	used := make([]bool, len(l.events))
	for _, x := range want {
		idx := -1
		for i := range l.events {
			if !used[i] && l.events[i].e.Entity == x.h {
				idx = i
				break
			}
		}
		if idx < 0 {
			return bad("no-event-for-entity", fmt.Sprintf("no event for changed entity %v", x.h))
		}
		used[idx] = true
		ev := &l.events[idx]
		toMask := func(b uint8) ecs.Mask {
			ids := []ecs.ID{}
			for ci := range r.cfg.Comps {
				if b&(1<<ci) != 0 {
					ids = append(ids, r.ids[ci])
				}
			}
			return ecs.All(ids...)
		}
		if ev.e.Added != toMask(x.added) {
			return bad("added-mask", fmt.Sprintf("event for %v: Added mask wrong (expected components %s)", x.h, r.bitsName(x.added)))
		}
		if ev.e.Removed != toMask(x.removed) {
			return bad("removed-mask", fmt.Sprintf("event for %v: Removed mask wrong (expected components %s)", x.h, r.bitsName(x.removed)))
		}
		if ecs.All(ev.added...) != toMask(x.added) || len(ev.added) != popcount(x.added) {
			return bad("added-ids", fmt.Sprintf("event for %v: AddedIDs %v, expected components %s", x.h, ev.added, r.bitsName(x.added)))
		}
		if ecs.All(ev.removed...) != toMask(x.removed) || len(ev.removed) != popcount(x.removed) {
			return bad("removed-ids", fmt.Sprintf("event for %v: RemovedIDs %v, expected components %s", x.h, ev.removed, r.bitsName(x.removed)))
		}
		relID := func(ci int) int {
			if ci < 0 {
				return -1
			}
			return int(idNum(r.ids[ci]))
		}
		if ev.oldRel != relID(x.oldRel) {
			return bad("old-relation", fmt.Sprintf("event for %v: OldRelation = %d, expected %d", x.h, ev.oldRel, relID(x.oldRel)))
		}
		if ev.newRel != relID(x.newRel) {
			return bad("new-relation", fmt.Sprintf("event for %v: NewRelation = %d, expected %d", x.h, ev.newRel, relID(x.newRel)))
		}
		if ev.e.OldTarget != x.oldTarget {
			return bad("old-target", fmt.Sprintf("event for %v: OldTarget = %v, expected %v", x.h, ev.e.OldTarget, x.oldTarget))
		}
		if ev.e.EventTypes != x.bits {
			return bad("types", fmt.Sprintf("event for %v: EventTypes = %06b, expected %06b", x.h, ev.e.EventTypes, x.bits))
		}
		if !ev.alive || !ev.maskOK {
			return bad("not-inspectable", fmt.Sprintf("event for %v: entity not alive/inspectable at delivery", x.h))
		}
		if x.removal {
			if !ev.locked {
				return bad("removal-unlocked", fmt.Sprintf("removal event for %v delivered with the world unlocked", x.h))
			}
			if ev.maskAt != toMask(x.oldMaskCI) {
				return bad("removal-mask", fmt.Sprintf("removal event for %v: entity no longer has its components at delivery", x.h))
			}
		} else {
			if ev.locked {
				return bad("locked", fmt.Sprintf("event for %v delivered with the world locked", x.h))
			}
			if ev.maskAt != toMask(x.newMask) {
				return bad("early", fmt.Sprintf("event for %v delivered before the change was applied", x.h))
			}
			if x.newRel >= 0 && (!ev.targetOK || ev.targetAt != x.newTgt) {
				return bad("new-target", fmt.Sprintf("event for %v: target at delivery = %v, expected %v", x.h, ev.targetAt, x.newTgt))
			}
			// events are delivered after the operation (for batches: after the whole batch): everything is in its final state
			if s := r.slotOfIn(neu, x.h); s >= 0 {
				for _, va := range ev.vals {
					if va.err != nil || va.val != neu.Slots[s].Val[va.ci] {
						return bad("early-values", fmt.Sprintf("event for %v: component %s reads %#x at delivery, the operation leaves %#x", x.h, r.cfg.Comps[va.ci], va.val, neu.Slots[s].Val[va.ci]))
					}
				}
			}
			for _, o := range ev.others {
				n := &neu.Slots[o.slot]
				if !n.Alive {
					continue
				}
				if o.mask != toMask2(r, n.Has) {
					return bad("during-batch", fmt.Sprintf("event for %v delivered before the operation was complete: %v does not have its final components yet", x.h, n.H))
				}
				if rel := neu.relOf(n.Has); rel >= 0 && (!o.hasTgt || o.target != n.Target) {
					return bad("during-batch-target", fmt.Sprintf("event for %v delivered before the operation was complete: %v does not have its final target yet (%v, final %v)", x.h, n.H, o.target, n.Target))
				}
			}
		}
	}
	return nil
}

func toMask2(r *Run, has uint8) ecs.Mask {
	var m ecs.Mask
	for ci := range r.cfg.Comps {
		if has&(1<<ci) != 0 {
			m.Set(r.ids[ci], true)
		}
	}
	return m
}

func (r *Run) slotOfIn(m *Model, h ecs.Entity) int {
	for s := range m.Slots {
		if m.Slots[s].H == h && m.Slots[s].Alive {
			return s
		}
	}
	return -1
}

// scribble overwrites a slice of IDs that the library handed out as a copy.
func scribble(ids []ecs.ID) {
	for i := range ids {
		ids[i] = idOf(uint8(250 - i))
	}
}

func popcount(b uint8) int {
	n := 0
	for ; b != 0; b &= b - 1 {
		n++
	}
	return n
}

func (r *Run) bitsName(b uint8) string {
	names := []string{}
	for ci, k := range r.cfg.Comps {
		if b&(1<<ci) != 0 {
			names = append(names, k.String())
		}
	}
	return "{" + strings.Join(names, ",") + "}"
}

var _ = sort.Ints
