package sim

import (
	"github.com/mlange-42/arche/ecs"
	"github.com/mlange-42/arche/filter"
	"verifharness/wx"
)

// Std is the feature set that is always on.
const Std = FRemove

// Standard oracle sets.
const (
	OBasic = OState | OInv | OFilters
)

// component index conventions of the relation scenarios
func relFilters(a, r int) []FSpec {
	return []FSpec{
		FAll("All(R)", r),      // 0
		FAll("All(R,A)", r, a), // 1
		FWithout("All(R).Without(A)", []int{r}, []int{a}), // 2
		FExclusive("All(R).Exclusive()", r),               // 3
		FRelOf(FAll("All(R)", r)),                         // 4
		FAll("All()"),                                     // 5
		FAll("All(A)", a),                                 // 6
		FRelOf(FAll("All(R,A)", r, a)),                    // 7
		// index >= 8: not usable in batch/registration operations. A relation filter that does not require the relation component.
		func() FSpec { f := FRelOf(FAll("All(A)", a)); f.SelfOnly = true; return f }(), // 8
	}
}

// RelCfg builds a relation scenario. order: 0 = A,R (A at ID 0); 1 = R,A (R at ID 0); 2 = A, 63 fillers, R (R at ID 64).
func RelCfg(id string, order int, k, parents, capInc int, feat uint32, oracles uint32) *Cfg {
	c := &Cfg{ID: id, K: k, Parents: parents, CapInc: capInc, Feat: feat | Std, Oracles: oracles, MaxRegs: 1}
	a, r := 0, 1
	switch order {
	case 0:
		c.Comps = []Kind{KA, KR}
	case 1:
		c.Comps = []Kind{KR, KA}
		a, r = 1, 0
	case 2:
		c.Comps = []Kind{KA, KR}
		c.Fillers = []int{0, 63}
	}
	c.Sets = [][]int{{}, {r}, {r, a}}
	c.Filters = relFilters(a, r)
	c.BatchRefs = []int{0, 4}
	c.RegSpecs = []int{0, 4}
	c.Move = []int{a, r}
	return c
}

// Rel2Cfg is a relation scenario with two relation component types (A, R, R2).
func Rel2Cfg(id string, k, parents, capInc int, feat uint32, oracles uint32) *Cfg {
	c := &Cfg{ID: id, K: k, Parents: parents, CapInc: capInc, Feat: feat | Std, Oracles: oracles, MaxRegs: 1}
	c.Comps = []Kind{KA, KR, KR2}
	c.Sets = [][]int{{}, {1}, {2}, {1, 0}}
	c.Filters = append(relFilters(0, 1)[:7], FRelOf(FAll("All(R2)", 2)))
	c.BatchRefs = []int{0, 4, 5}
	c.RegSpecs = []int{0, 4}
	c.Move = []int{0, 1, 2}
	return c
}

// CoreCfg builds a storage scenario without relations: components A (8 bytes), B (12 bytes, align 4), Z (zero-sized), C (padding).
func CoreCfg(id string, k, capInc int, fillers []int, feat uint32, oracles uint32) *Cfg {
	c := &Cfg{ID: id, K: k, CapInc: capInc, Feat: feat | Std, Oracles: oracles, MaxRegs: 1}
	c.Comps = []Kind{KA, KB, KZ, KC}
	c.Fillers = fillers
	c.Sets = [][]int{{}, {0}, {0, 1}, {1, 2}, {3}}
	c.Filters = []FSpec{
		FAll("All()"),     // 0
		FAll("All(A)", 0), // 1
		FAll("All(B)", 1), // 2
		FWithout("All(A).Without(B)", []int{0}, []int{1}), // 3
		FExclusive("All(A).Exclusive()", 0),               // 4
		FAll("All(Z)", 2),                                 // 5
		FAll("All(C)", 3),                                 // 6
	}
	c.BatchRefs = []int{0, 1, 3}
	c.RegSpecs = []int{1, 3}
	c.Move = []int{0, 1, 2, 3}
	c.Values = 1
	return c
}

// EntCfg is the entity-only scenario.
func EntCfg(id string, k, capInc int, feat uint32, oracles uint32) *Cfg {
	c := &Cfg{ID: id, K: k, CapInc: capInc, Feat: feat | Std, Oracles: oracles}
	c.Comps = []Kind{KA}
	c.Sets = [][]int{{}}
	c.Filters = []FSpec{FAll("All()")}
	c.BatchRefs = []int{0}
	c.MaxBatch = 3
	return c
}

// P sets the property a scenario's unattributed failures belong to.
func (c *Cfg) P(prop string) *Cfg {
	c.Prop = prop
	return c
}

// LogicCfg is a scenario whose filter menu consists of logic filters of package filter over components A, B, R.
func LogicCfg(id string, k int, feat uint32, oracles uint32) *Cfg {
	c := &Cfg{ID: id, K: k, CapInc: 8, Feat: feat | Std | FBuilder, Oracles: oracles, MaxRegs: 1}
	c.Comps = []Kind{KA, KB, KR}
	c.Sets = [][]int{{}, {0}, {0, 1}, {2}, {2, 0}}
	a, b, r := 0, 1, 2
	has := func(h uint8, ci int) bool { return h&(1<<ci) != 0 }
	c.Filters = []FSpec{
		{Name: "And(All(A),Not(All(B)))", Match: func(h uint8) bool { return has(h, a) && !has(h, b) },
			Build: func(ids []ecs.ID) ecs.Filter { return filter.And(filter.All(ids[a]), filter.Not(filter.All(ids[b]))) }},
		{Name: "Or(All(A,B),All(R))", Match: func(h uint8) bool { return has(h, a) && has(h, b) || has(h, r) },
			Build: func(ids []ecs.ID) ecs.Filter { return filter.Or(filter.All(ids[a], ids[b]), filter.All(ids[r])) }},
		{Name: "XOr(All(A),All(R))", Match: func(h uint8) bool { return has(h, a) != has(h, r) },
			Build: func(ids []ecs.ID) ecs.Filter { return filter.XOr(filter.All(ids[a]), filter.All(ids[r])) }},
		{Name: "Any(A,R)", Match: func(h uint8) bool { return has(h, a) || has(h, r) },
			Build: func(ids []ecs.ID) ecs.Filter { return filter.Any(ids[a], ids[r]) }},
		{Name: "NoneOf(A,B)", Match: func(h uint8) bool { return !has(h, a) && !has(h, b) },
			Build: func(ids []ecs.ID) ecs.Filter { return filter.NoneOf(ids[a], ids[b]) }},
		{Name: "AnyNot(A,B)", Match: func(h uint8) bool { return !has(h, a) || !has(h, b) },
			Build: func(ids []ecs.ID) ecs.Filter { return filter.AnyNot(ids[a], ids[b]) }},
		FRelOf(FSpec{Name: "And(All(R),Not(All(A)))", Match: func(h uint8) bool { return has(h, r) && !has(h, a) },
			Build: func(ids []ecs.ID) ecs.Filter { return filter.And(filter.All(ids[r]), filter.Not(filter.All(ids[a]))) }}),
	}
	c.BatchRefs = []int{0, 3}
	c.RegSpecs = []int{0, 1, 2, 6}
	c.Move = []int{a, b}
	return c
}

// ---- boundary seeds: constructed non-initial states at the scale-dependent boundaries of the implementation
// (pagedSlice page = 32 tables / nodes, bitSet word = 64 entity IDs, default capacity 128), explored to a small depth.

// BoundaryTablesCfg: 33 relation tables in one node (33 targets with one child each); focus on the tables around the page boundary.
func BoundaryTablesCfg(id string, extra int, feat uint32, oracles uint32) *Cfg {
	return BoundaryTablesNCfg(id, 33, extra, feat, oracles)
}

// BoundaryTablesNCfg: n relation tables (one target each, one child each) in one node; focus on the slots around the end.
func BoundaryTablesNCfg(id string, n, extra int, feat uint32, oracles uint32) *Cfg {
	c := RelCfg(id, 0, 2*n+extra, 0, 8, feat|FBuilder, oracles)
	for t := 0; t < n; t++ {
		c.Prologue = append(c.Prologue, wx.Op{K: OpNewEntity, A: 0})
	}
	for t := 0; t < n; t++ {
		c.Prologue = append(c.Prologue, wx.Op{K: OpBuilderNew, A: 1, B: 1, C: int8(t), D: 0})
	}
	c.Focus = []int{0, n - 2, n - 1, n, 2*n - 2, 2*n - 1}
	for i := 0; i < extra; i++ {
		c.Focus = append(c.Focus, 2*n+i)
	}
	c.BatchRefs = []int{0}
	c.RegSpecs = []int{0}
	return c
}

// BoundaryNodesCfg: 34 archetype nodes (component sets over six components); focus on the entities around the page boundary.
func BoundaryNodesCfg(id string, extra int, feat uint32, oracles uint32) *Cfg {
	return BoundaryNodesNCfg(id, 34, extra, feat, oracles)
}

// BoundaryNodesNCfg: n entities with n different component sets (the graph holds more nodes than that: the nodes on the
// paths to them exist as well).
func BoundaryNodesNCfg(id string, n, extra int, feat uint32, oracles uint32) *Cfg {
	c := &Cfg{ID: id, K: n + extra, CapInc: 4, Feat: feat | Std, Oracles: oracles, MaxRegs: 1}
	c.Comps = []Kind{KA, KB, KZ, KC, KD, KR}
	for b := 0; b < 64; b++ {
		set := []int{}
		for k := 0; k < 6; k++ {
			if b&(1<<k) != 0 {
				set = append(set, k)
			}
		}
		c.Sets = append(c.Sets, set)
	}
	for i := 0; i < n; i++ {
		c.Prologue = append(c.Prologue, wx.Op{K: OpNewEntity, A: int8(i)})
	}
	c.Filters = []FSpec{
		FAll("All()"), FAll("All(A)", 0), FAll("All(B)", 1), FWithout("All(A).Without(B)", []int{0}, []int{1}),
		FAll("All(R)", 5), FExclusive("All(A,B).Exclusive()", 0, 1), FAll("All(Z,D)", 2, 4),
	}
	c.BatchRefs = []int{1, 3}
	c.RegSpecs = []int{1, 4}
	c.Move = []int{0, 1, 4, 5}
	c.Focus = []int{0, n - 3, n - 2, n - 1}
	for i := 0; i < extra; i++ {
		c.Focus = append(c.Focus, n+i)
	}
	return c
}

// BoundaryEntitiesCfg: pre entities created in one batch, then the exploration continues with the IDs around a boundary (64 or 128).
func BoundaryEntitiesCfg(id string, pre, extra, capInc int, feat uint32, oracles uint32) *Cfg {
	c := RelCfg(id, 0, pre+extra, 0, capInc, feat|FBuilder, oracles)
	c.Sets = [][]int{{}, {1}}
	c.Prologue = []wx.Op{{K: OpNewBatch, A: 0, B: int8(pre), C: -2, D: 0}}
	for i := pre - 2; i < pre+extra; i++ {
		c.Focus = append(c.Focus, i)
	}
	c.BatchRefs = []int{0}
	c.RegSpecs = []int{0}
	c.MaxBatch = 3
	return c
}

// RichRelCfg starts from a constructed state: two targets with a child each in two relation nodes ({R} and {R,A}),
// optionally with All(R) registered; extra handles can be created on top. Histories that would need 7+ operations
// from the empty world (a target owning empty tables in several nodes, listed before other targets' tables) are
// within depth 3-4 from here.
func RichRelCfg(id string, extra int, registered bool, feat uint32, oracles uint32) *Cfg {
	c := RelCfg(id, 0, 6+extra, 0, 8, feat|FBuilder, oracles)
	c.Prologue = []wx.Op{
		{K: OpNewEntity, A: 0}, {K: OpNewEntity, A: 0},
		{K: OpBuilderNew, A: 1, B: 1, C: 0, D: 0}, {K: OpBuilderNew, A: 2, B: 1, C: 0, D: 0},
		{K: OpBuilderNew, A: 1, B: 1, C: 1, D: 0}, {K: OpBuilderNew, A: 2, B: 1, C: 1, D: 0},
	}
	if registered {
		c.Prologue = append(c.Prologue, wx.Op{K: OpRegister, A: encodeRef(0, -1, false)})
	}
	return c
}

// RichEmptiedCfg is RichRelCfg after all four children were removed again: two alive targets that own empty tables in
// two relation nodes each.
func RichEmptiedCfg(id string, extra int, registered bool, feat uint32, oracles uint32) *Cfg {
	c := RichRelCfg(id, extra, registered, feat, oracles)
	for s := int8(2); s < 6; s++ {
		c.Prologue = append(c.Prologue, wx.Op{K: OpRemoveEntity, A: s})
	}
	return c
}

// RichOrphanCfg starts from: a dead target T whose table in node {R} was retired after two children were created and
// removed again, and an orphan in node {R,A} that still points to the dead T.
func RichOrphanCfg(id string, extra int, registered bool, feat uint32, oracles uint32) *Cfg {
	c := RelCfg(id, 0, 4+extra, 0, 8, feat|FBuilder, oracles)
	c.Prologue = []wx.Op{
		{K: OpNewEntity, A: 0},                    // e0 = T
		{K: OpBuilderNew, A: 1, B: 1, C: 0, D: 0}, // e1 {R} -> T
		{K: OpBuilderNew, A: 1, B: 1, C: 0, D: 0}, // e2 {R} -> T (a second look-up of T's table)
		{K: OpBuilderNew, A: 2, B: 1, C: 0, D: 0}, // e3 {R,A} -> T
	}
	if registered {
		c.Prologue = append(c.Prologue, wx.Op{K: OpRegister, A: encodeRef(0, -1, false)})
	}
	c.Prologue = append(c.Prologue, wx.Op{K: OpRemoveEntity, A: 1}, wx.Op{K: OpRemoveEntity, A: 2}, wx.Op{K: OpRemoveEntity, A: 0})
	return c
}

// RichThreeTargetsCfg starts from three targets T1..T3, a child of T1 and a child of T2 in node {R} (two source tables that a
// batch re-target merges into one destination) and a plain entity {A}: batch operations over several source tables are
// one operation away.
func RichThreeTargetsCfg(id string, extra int, feat uint32, oracles uint32) *Cfg {
	c := RelCfg(id, 0, 6+extra, 0, 8, feat|FBuilder, oracles)
	c.Prologue = []wx.Op{
		{K: OpNewEntity, A: 0}, {K: OpNewEntity, A: 0}, {K: OpNewEntity, A: 0},
		{K: OpBuilderNew, A: 1, B: 1, C: 0, D: 0}, {K: OpBuilderNew, A: 1, B: 1, C: 1, D: 0},
		{K: OpBuilderNew, A: 1, B: 1, C: 1, D: 0},
	}
	c.BatchRefs = []int{0, 4, 5}
	return c
}
