package sim

import (
	"fmt"

	"github.com/mlange-42/arche/ecs"
	"github.com/mlange-42/arche/ecs/event"
	"github.com/mlange-42/arche/listener"
	"verifharness/wx"
)

// SubCfg explores a base scenario with a recording listener subscribed to everything, and for the last operation
// of every history compares what restricted listeners and Dispatch compositions receive with the documented
// selection of the full event stream.
type SubCfg struct {
	ID           string
	Base         *Cfg
	Restrictions [][]int // component restrictions (component indices); nil entry = no restriction
	DispatchMenu []SubSpec
}

// SubSpec is a listener configuration.
type SubSpec struct {
	Subs  event.Subscription
	Comps []int // nil = all components
}

// Name implements wx.Scenario.
func (s *SubCfg) Name() string { return s.ID }

// OpKind implements wx.Scenario.
func (s *SubCfg) OpKind(op wx.Op) string { return s.Base.OpKind(op) }

// OpString implements wx.Scenario.
func (s *SubCfg) OpString(op wx.Op) string { return s.Base.OpString(op) }

// New implements wx.Scenario.
func (s *SubCfg) New() wx.Run {
	b := *s.Base
	b.Listener = true
	b.Oracles = OState | OEvents
	nb := *s.Base
	nb.Listener = false
	nb.Oracles = 0
	return &SubRun{cfg: s, inner: NewRun(&b), bare: &nb}
}

// SubRun implements wx.Run.
type SubRun struct {
	cfg     *SubCfg
	inner   *Run
	bare    *Cfg
	hist    []wx.Op
	final   bool
	Configs int // listener configurations checked (statistics)
}

// BeginFinal implements wx.Finalizer.
func (r *SubRun) BeginFinal() { r.final = true }

// Outcome implements wx.Run.
func (r *SubRun) Outcome() string { return r.inner.outcome }

// Key implements wx.Run.
func (r *SubRun) Key(buf []byte) []byte { return r.inner.Key(buf) }

// Enabled implements wx.Run.
func (r *SubRun) Enabled() []wx.Op { return r.inner.Enabled() }

// Check implements wx.Run.
func (r *SubRun) Check() *wx.Failure { return r.inner.Check() }

type plainEvent struct {
	entity         ecs.Entity
	added, removed ecs.Mask
	addedIDs       string
	removedIDs     string
	oldRel, newRel int
	oldTarget      ecs.Entity
	types          event.Subscription
}

func toPlain(e *ecs.EntityEvent) plainEvent {
	p := plainEvent{entity: e.Entity, added: e.Added, removed: e.Removed, oldRel: -1, newRel: -1, oldTarget: e.OldTarget, types: e.EventTypes}
	p.addedIDs = fmt.Sprint(e.AddedIDs)
	p.removedIDs = fmt.Sprint(e.RemovedIDs)
	if e.OldRelation != nil {
		p.oldRel = int(idNum(*e.OldRelation))
	}
	if e.NewRelation != nil {
		p.newRel = int(idNum(*e.NewRelation))
	}
	return p
}

// selects implements the documented subscription rule.
func selects(p *plainEvent, subs event.Subscription, comps *ecs.Mask) bool {
	trig := subs & p.types
	if trig == 0 {
		return false
	}
	if comps == nil {
		return true
	}
	if trig&(event.EntityCreated|event.ComponentAdded) != 0 && comps.ContainsAny(&p.added) {
		return true
	}
	if trig&(event.EntityRemoved|event.ComponentRemoved) != 0 && comps.ContainsAny(&p.removed) {
		return true
	}
	if trig&(event.RelationChanged|event.TargetChanged) != 0 {
		if p.oldRel >= 0 && comps.Get(idOf(uint8(p.oldRel))) {
			return true
		}
		if p.newRel >= 0 && comps.Get(idOf(uint8(p.newRel))) {
			return true
		}
	}
	return false
}

func idOf(n uint8) ecs.ID {
	// ecs.ID has a single unexported uint8 field
	var id ecs.ID
	*(*uint8)(ptrOf(&id)) = n
	return id
}

// plainListener is a minimal custom listener.
type plainListener struct {
	subs   event.Subscription
	comps  *ecs.Mask
	events []plainEvent
}

func (l *plainListener) Notify(w *ecs.World, e ecs.EntityEvent) {
	l.events = append(l.events, toPlain(&e))
}
func (l *plainListener) Subscriptions() event.Subscription { return l.subs }
func (l *plainListener) Components() *ecs.Mask             { return l.comps }

func (r *SubRun) replayBare() *Run {
	f := NewRun(r.bare)
	for _, o := range r.hist {
		f.Apply(o)
	}
	return f
}

func (r *SubRun) compMask(f *Run, comps []int) *ecs.Mask {
	if comps == nil {
		return nil
	}
	m := ecs.All(f.idList(comps)...)
	return &m
}

func sameEvents(a, b []plainEvent) bool {
	if len(a) != len(b) {
		return false
	}
	for i := range a {
		if a[i] != b[i] {
			return false
		}
	}
	return true
}

// Apply implements wx.Run.
func (r *SubRun) Apply(op wx.Op) wx.Result {
	final := r.final
	r.final = false
	res := r.inner.Apply(op)
	if res.Fail != nil || res.Prune || !final || r.inner.outcome != "ok" {
		r.hist = append(r.hist, op)
		return res
	}
	full := make([]plainEvent, len(r.inner.lis.events))
	for i := range r.inner.lis.events {
		full[i] = toPlain(&r.inner.lis.events[i].e)
	}
	fail := func(sig, msg string) wx.Result {
		return wx.Result{Prune: true, Fail: &wx.Failure{Prop: "C12", Sig: sig, Msg: r.cfg.Base.OpString(op) + ": " + msg}}
	}
	expect := func(subs event.Subscription, comps *ecs.Mask) []plainEvent {
		out := []plainEvent{}
		for i := range full {
			if selects(&full[i], subs, comps) {
				out = append(out, full[i])
			}
		}
		return out
	}
	kind := opNames[op.K]
	// (a) restricted listeners installed alone
	for subs := event.Subscription(0); subs < 64; subs++ {
		for ri, rc := range r.cfg.Restrictions {
			f := r.replayBare()
			l := &plainListener{subs: subs, comps: r.compMask(f, rc)}
			f.w.SetListener(l)
			var o obs
			if pv := f.exec(op, &o); pv != nil {
				return fail("sub:panic:"+kind, fmt.Sprintf("with a listener subscribed to %06b restricted to %s the call panicked: %v", subs, r.restrName(ri), pv))
			}
			r.Configs++
			want := expect(subs, l.comps)
			if !sameEvents(l.events, want) {
				sig := "sub:missing:"
				if len(l.events) > len(want) {
					sig = "sub:extra:"
				} else if len(l.events) == len(want) {
					sig = "sub:content:"
				}
				return fail(sig+kind, fmt.Sprintf("a listener subscribed to %06b restricted to %s received %d event(s), the documented rule selects %d of the %d event(s) of the full stream (received %v, expected %v)",
					subs, r.restrName(ri), len(l.events), len(want), len(full), describe(l.events), describe(want)))
			}
		}
	}
	// (b) Dispatch compositions: subsets of size 1..3 of the menu, three construction modes
	menu := r.cfg.DispatchMenu
	n := len(menu)
	for set := 1; set < 1<<n; set++ {
		if popcount(uint8(set)) > 3 {
			continue
		}
		for mode := 0; mode < 3; mode++ {
			f := r.replayBare()
			subsL := []*plainListener{}
			cbs := []*listener.Callback{}
			for i := 0; i < n; i++ {
				if set&(1<<i) == 0 {
					continue
				}
				pl := &plainListener{subs: menu[i].Subs, comps: r.compMask(f, menu[i].Comps)}
				subsL = append(subsL, pl)
				cb := listener.NewCallback(func(w *ecs.World, e ecs.EntityEvent) { pl.Notify(w, e) }, menu[i].Subs, f.idList(menu[i].Comps)...)
				cbs = append(cbs, &cb)
			}
			var d listener.Dispatch
			switch mode {
			case 0:
				ls := make([]ecs.Listener, len(cbs))
				for i := range cbs {
					ls[i] = cbs[i]
				}
				d = listener.NewDispatch(ls...)
			case 1:
				d = listener.NewDispatch()
				for i := range cbs {
					d.AddListener(cbs[i])
				}
			default:
				d = listener.NewDispatch(cbs[0])
				for i := 1; i < len(cbs); i++ {
					d.AddListener(cbs[i])
				}
			}
			f.w.SetListener(&d)
			var o obs
			if pv := f.exec(op, &o); pv != nil {
				return fail("dispatch:panic:"+kind, fmt.Sprintf("with a Dispatch listener the call panicked: %v", pv))
			}
			r.Configs++
			for i, pl := range subsL {
				want := expect(pl.subs, pl.comps)
				if !sameEvents(pl.events, want) {
					return fail("dispatch:"+kind, fmt.Sprintf("Dispatch (construction mode %d, %d sub-listeners): sub-listener %d subscribed to %06b (components %v) received %v, installed alone it would receive %v",
						mode, len(subsL), i, pl.subs, pl.comps != nil, describe(pl.events), describe(want)))
				}
			}
		}
	}
	r.hist = append(r.hist, op)
	return res
}

func (r *SubRun) restrName(i int) string {
	rc := r.cfg.Restrictions[i]
	if rc == nil {
		return "no components"
	}
	s := "{"
	for j, c := range rc {
		if j > 0 {
			s += ","
		}
		s += r.cfg.Base.Comps[c].String()
	}
	return s + "}"
}

func describe(evs []plainEvent) string {
	s := "["
	for i, e := range evs {
		if i > 0 {
			s += " "
		}
		s += fmt.Sprintf("%v:%06b", e.entity, e.types)
	}
	return s + "]"
}
