// Package sim binds the real ecs.World to a small reference model and exposes both as a wx.Run.
package sim

import (
	"fmt"
	"reflect"
	"unsafe"

	"github.com/mlange-42/arche/ecs"
)

// Kind is a component type of the menu.
type Kind uint8

// Component kinds.
const (
	KA  Kind = iota // struct{V uint64}
	KB              // struct{V [3]uint32}: size 12, align 4
	KZ              // struct{}: zero-sized
	KC              // struct{X uint8; V uint64}: padding
	KR              // relation with payload
	KR2             // relation, zero-sized
	KD              // struct{V uint16}: small, align 2
	numKinds
)

// CompA is a plain 8 byte component.
type CompA struct{ V uint64 }

// CompB is a 12 byte component with 4 byte alignment.
type CompB struct{ V [3]uint32 }

// CompZ is a zero-sized component.
type CompZ struct{}

// CompC is a component with interior padding.
type CompC struct {
	X uint8
	V uint64
}

// CompR is a relation component with payload.
type CompR struct {
	ecs.Relation
	V uint64
}

// CompR2 is a zero-sized relation component.
type CompR2 struct{ ecs.Relation }

// CompD is a 2 byte component.
type CompD struct{ V uint16 }

var kindNames = [...]string{"A", "B", "Z", "C", "R", "R2", "D"}

func (k Kind) String() string { return kindNames[k] }

// IsRel reports whether the kind is a relation component.
func (k Kind) IsRel() bool { return k == KR || k == KR2 }

// HasValue reports whether the kind stores a value token.
func (k Kind) HasValue() bool { return k != KZ && k != KR2 }

func register(w *ecs.World, k Kind) ecs.ID {
	switch k {
	case KA:
		return ecs.ComponentID[CompA](w)
	case KB:
		return ecs.ComponentID[CompB](w)
	case KZ:
		return ecs.ComponentID[CompZ](w)
	case KC:
		return ecs.ComponentID[CompC](w)
	case KR:
		return ecs.ComponentID[CompR](w)
	case KR2:
		return ecs.ComponentID[CompR2](w)
	case KD:
		return ecs.ComponentID[CompD](w)
	}
	panic("unknown kind")
}

var fillerBase = reflect.TypeOf(uint8(0))

// registerFillers registers n distinct filler component types (never used on entities).
func registerFillers(w *ecs.World, from, n int) {
	for i := 0; i < n; i++ {
		ecs.TypeID(w, reflect.ArrayOf(from+i+1, fillerBase))
	}
}

// mix is splitmix64.
func mix(x uint64) uint64 {
	x += 0x9e3779b97f4a7c15
	x = (x ^ (x >> 30)) * 0xbf58476d1ce4e5b9
	x = (x ^ (x >> 27)) * 0x94d049bb133111eb
	return x ^ (x >> 31)
}

// token computes the value token for "value j of component ci written to handle h".
func token(h ecs.Entity, ci int, j int) uint64 {
	t := mix(uint64(h.ID())<<40 ^ uint64(h.Generation())<<16 ^ uint64(ci)<<8 ^ uint64(j))
	if t == 0 {
		t = 1
	}
	return t
}

// narrow reduces a token to what the kind can store (so that model values are comparable).
func narrow(k Kind, t uint64) uint64 {
	switch k {
	case KD:
		v := t & 0xffff
		if v == 0 && t != 0 {
			v = 1
		}
		return v
	case KZ, KR2:
		return 0
	}
	return t
}

// newValue allocates a component value of kind k holding token t and returns a pointer to it.
func newValue(k Kind, t uint64) interface{} {
	switch k {
	case KA:
		return &CompA{V: t}
	case KB:
		return &CompB{V: [3]uint32{uint32(t), uint32(t >> 32), uint32(t) ^ uint32(t>>32)}}
	case KZ:
		return &CompZ{}
	case KC:
		return &CompC{X: uint8(t), V: t}
	case KR:
		return &CompR{V: t}
	case KR2:
		return &CompR2{}
	case KD:
		return &CompD{V: uint16(t)}
	}
	panic("unknown kind")
}

// writeValue stores token t through a component pointer.
func writeValue(k Kind, p unsafe.Pointer, t uint64) {
	switch k {
	case KA:
		(*CompA)(p).V = t
	case KB:
		(*CompB)(p).V = [3]uint32{uint32(t), uint32(t >> 32), uint32(t) ^ uint32(t>>32)}
	case KC:
		c := (*CompC)(p)
		c.X, c.V = uint8(t), t
	case KR:
		(*CompR)(p).V = t
	case KD:
		(*CompD)(p).V = uint16(t)
	}
}

// readValue reads the token behind a component pointer; err is set if the redundant parts disagree.
func readValue(k Kind, p unsafe.Pointer) (uint64, error) {
	switch k {
	case KA:
		return (*CompA)(p).V, nil
	case KB:
		v := (*CompB)(p).V
		if v[2] != v[0]^v[1] {
			return 0, fmt.Errorf("torn value %v", v)
		}
		return uint64(v[0]) | uint64(v[1])<<32, nil
	case KC:
		c := (*CompC)(p)
		if c.X != uint8(c.V) {
			return 0, fmt.Errorf("torn value X=%d V=%d", c.X, c.V)
		}
		return c.V, nil
	case KR:
		return (*CompR)(p).V, nil
	case KD:
		return uint64((*CompD)(p).V), nil
	}
	return 0, nil
}

func ptrOf[T any](p *T) unsafe.Pointer { return unsafe.Pointer(p) }

// IDOf builds the component ID with the given number (ecs.ID has a single unexported uint8 field).
func IDOf(n uint8) ecs.ID { return idOf(n) }

// IDNum returns the number of a component ID.
func IDNum(id ecs.ID) uint8 { return idNum(id) }
