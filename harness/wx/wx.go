// Package wx is a small explicit-state model checker ("world explorer").
//
// It performs a level-synchronous, parallel breadth-first search over the states of a Run.
// A Run wraps the real implementation (plus a reference model); it cannot be cloned, so a
// state is identified with the shortest operation sequence reaching it, and successors are
// computed by replaying that sequence on a fresh Run and applying one more operation.
// States are de-duplicated on a 128 bit hash of a canonical dump provided by the Run.
package wx

import (
	"crypto/sha256"
	"fmt"
	"runtime"
	"sort"
	"sync"
	"sync/atomic"
	"time"
)

// Op is one operation of an alphabet. Its meaning is defined by the scenario.
type Op struct {
	K          uint8
	A, B, C, D int8
}

// MemLimit is the heap size (bytes) above which an exploration stops expanding the current level (0 = no limit).
var MemLimit int64

// Failure describes a property violation found on one execution.
type Failure struct {
	Prop string // property id the violated oracle belongs to
	Sig  string // stable signature (oracle + structural fact), used for known findings
	Msg  string // human readable details
}

// Result of applying one operation.
type Result struct {
	Prune bool     // do not expand the resulting state (illegal call without defined post-state, poisoned world)
	Fail  *Failure // violation detected by a transition oracle
}

// Run is one execution context: the real implementation plus the reference model.
type Run interface {
	// Enabled returns the operations of the alphabet in the current state, simplest first. Must be deterministic.
	Enabled() []Op
	// Apply executes the operation on the implementation and the model, and runs the transition oracles.
	Apply(op Op) Result
	// Key appends a canonical dump of the complete state (implementation and harness).
	Key(buf []byte) []byte
	// Check runs the state oracles.
	Check() *Failure
	// Outcome returns a short token describing the observable outcome of the last Apply (for vacuity statistics).
	Outcome() string
}

// Historian is implemented by runs that fold everything they observed (returned handles, iteration orders,
// events, return values) into a running hash. The explorer stores it per state and requires every replay of
// the same history to reproduce it.
type Historian interface {
	Hist() uint64
}

// Finalizer is implemented by runs that want to know when the explorer applies the operation under test
// (as opposed to replaying a stored prefix).
type Finalizer interface {
	BeginFinal()
}

// Scenario creates runs and names operations.
type Scenario interface {
	Name() string
	New() Run
	OpString(op Op) string
	OpKind(op Op) string
}

// Config bounds one exploration.
type Config struct {
	MaxDepth        int       // maximum depth (0 = unbounded)
	MaxStates       int       // state cap (0 = unbounded)
	Deadline        time.Time // wall clock deadline (zero = none)
	Workers         int       // 0 = NumCPU
	StopOnViolation bool      // stop after the level in which the first unknown violation was found
	KeepKeys        bool      // keep ordered (key) list per level (for cross-process determinism comparison)
	OnLevel         func(depth int, st *Stats)
	IsKnown         func(f *Failure) bool // known findings (pruned, reported once)
	// Accept decides whether a failure belongs to the property being checked. Failures of other properties' oracles
	// are recorded (Found.Foreign) but do not stop or prune the exploration when they come from a state oracle.
	Accept           func(f *Failure, lastKind string) bool
	CheckEveryReplay bool // compare state key and history hash after every replay, not only the first per state
	DumpLevel        int  // if > 0: call Dump for every new state found at this depth
	Dump             func(path []Op, key [16]byte, hist uint64)
}

// Found is a failure with the shortest history that produced it.
type Found struct {
	Failure
	Path    []Op
	Count   int
	Known   bool
	Foreign bool
}

// Stats reports what an exploration covered.
type Stats struct {
	Scenario       string
	States         int
	Transitions    int
	SelfLoops      int
	Pruned         int
	CompletedDepth int
	MaxDepth       int
	Fixpoint       bool
	CapHit         string
	PerKind        map[string]int
	Outcomes       map[string]int
	Found          []*Found
	Samples        [][]string
	LevelDigests   []string
	LevelTrans     []int
	Wall           time.Duration
	FrontierSizes  []int
}

type node struct {
	parent int32
	op     Op
}

type key [16]byte

type res struct {
	op      Op
	hist    uint64
	key     key
	fail    *Failure
	prune   bool
	self    bool
	outcome string
}

const shards = 64

type seenSet struct {
	m [shards]map[key]struct{}
}

func newSeen() *seenSet {
	s := &seenSet{}
	for i := range s.m {
		s.m[i] = map[key]struct{}{}
	}
	return s
}

func (s *seenSet) add(k key) bool {
	m := s.m[k[0]%shards]
	if _, ok := m[k]; ok {
		return false
	}
	m[k] = struct{}{}
	return true
}

func histOf(r Run) uint64 {
	if h, ok := r.(Historian); ok {
		return h.Hist()
	}
	return 0
}

func hashKey(b []byte) key {
	h := sha256.Sum256(b)
	var k key
	copy(k[:], h[:16])
	return k
}

// Explorer holds the search state so that samples and paths can be extracted afterwards.
type Explorer struct {
	sc    Scenario
	cfg   Config
	nodes []node
	keys  []key
	hists []uint64
}

func (e *Explorer) path(i int32) []Op {
	p := []Op{}
	for i > 0 {
		p = append(p, e.nodes[i].op)
		i = e.nodes[i].parent
	}
	for l, r := 0, len(p)-1; l < r; l, r = l+1, r-1 {
		p[l], p[r] = p[r], p[l]
	}
	return p
}

// PathStrings renders a path.
func PathStrings(sc Scenario, p []Op) []string {
	out := make([]string, len(p))
	for i, o := range p {
		out[i] = sc.OpString(o)
	}
	return out
}

// Replay applies a path on a fresh run and returns it along with the first failure met (transition oracles and state oracles after every op).
func Replay(sc Scenario, p []Op, checkStates bool) (Run, *Failure, int) {
	r := sc.New()
	for i, o := range p {
		x := r.Apply(o)
		if x.Fail != nil {
			return r, x.Fail, i
		}
		if checkStates && !x.Prune {
			if f := r.Check(); f != nil {
				return r, f, i
			}
		}
	}
	return r, nil, -1
}

// ReplayFull re-executes a history the way the explorer did: state oracles after every operation, and the last
// operation marked as the operation under test.
func ReplayFull(sc Scenario, p []Op, accept func(f *Failure, lastKind string) bool) (Run, *Failure, int) {
	r := sc.New()
	if len(p) == 0 {
		return r, r.Check(), -1
	}
	for i, o := range p {
		if fz, ok := r.(Finalizer); ok && i == len(p)-1 {
			fz.BeginFinal()
		}
		x := r.Apply(o)
		if x.Fail != nil {
			return r, x.Fail, i
		}
		if !x.Prune {
			if f := r.Check(); f != nil && (accept == nil || accept(f, sc.OpKind(o))) {
				return r, f, i
			}
		}
	}
	return r, nil, -1
}

// Explore runs the breadth-first search.
func Explore(sc Scenario, cfg Config) *Stats {
	start := time.Now()
	if cfg.Workers <= 0 {
		cfg.Workers = runtime.NumCPU()
	}
	e := &Explorer{sc: sc, cfg: cfg}
	st := &Stats{Scenario: sc.Name(), PerKind: map[string]int{}, Outcomes: map[string]int{}}
	found := map[string]*Found{}
	addFound := func(f *Failure, path []Op) {
		if fo, ok := found[f.Sig]; ok {
			fo.Count++
			return
		}
		fo := &Found{Failure: *f, Path: path, Count: 1}
		if cfg.IsKnown != nil {
			fo.Known = cfg.IsKnown(f)
		}
		if cfg.Accept != nil {
			last := ""
			if len(path) > 0 {
				last = sc.OpKind(path[len(path)-1])
			}
			fo.Foreign = !cfg.Accept(f, last)
		}
		found[f.Sig] = fo
		st.Found = append(st.Found, fo)
	}
	unknown := func() bool {
		for _, f := range st.Found {
			if !f.Known && !f.Foreign {
				return true
			}
		}
		return false
	}

	root := sc.New()
	rk := hashKey(root.Key(nil))
	e.nodes = append(e.nodes, node{-1, Op{}})
	e.keys = append(e.keys, rk)
	e.hists = append(e.hists, histOf(root))
	seen := newSeen()
	seen.add(rk)
	frontier := []int32{0}
	st.States = 1
	depth := 0
	deadlineHit := func() bool {
		return !cfg.Deadline.IsZero() && time.Now().After(cfg.Deadline)
	}
	// memory budget: a level-synchronous search holds all transitions of a level; a sampler watches the heap and ends the
	// exploration of the current level like a time budget does (everything explored so far stays valid)
	var memHit int32
	stopSampler := make(chan struct{})
	if MemLimit > 0 {
		go func() {
			t := time.NewTicker(300 * time.Millisecond)
			defer t.Stop()
			var ms runtime.MemStats
			for {
				select {
				case <-stopSampler:
					return
				case <-t.C:
					runtime.ReadMemStats(&ms)
					if int64(ms.HeapAlloc) > MemLimit {
						atomic.StoreInt32(&memHit, 1)
					} else if int64(ms.HeapAlloc) < MemLimit*3/4 {
						atomic.StoreInt32(&memHit, 0)
					}
				}
			}
		}()
	}
	defer close(stopSampler)

	type itemRes struct {
		rs       []res
		stateErr *Failure
		foreign  *Failure
		done     bool
	}

	for len(frontier) > 0 {
		if cfg.MaxDepth > 0 && depth >= cfg.MaxDepth {
			st.CapHit = fmt.Sprintf("depth cap %d", cfg.MaxDepth)
			break
		}
		if cfg.MaxStates > 0 && st.States >= cfg.MaxStates {
			st.CapHit = fmt.Sprintf("state cap %d", cfg.MaxStates)
			break
		}
		if deadlineHit() {
			st.CapHit = "time budget"
			break
		}
		if atomic.LoadInt32(&memHit) != 0 {
			runtime.GC()
			var ms runtime.MemStats
			runtime.ReadMemStats(&ms)
			if int64(ms.HeapAlloc) > MemLimit*3/4 {
				st.CapHit = "memory budget"
				break
			}
			atomic.StoreInt32(&memHit, 0)
		}
		st.FrontierSizes = append(st.FrontierSizes, len(frontier))
		out := make([]itemRes, len(frontier))
		var next int64 = -1
		var wg sync.WaitGroup
		var aborted int32
		for wk := 0; wk < cfg.Workers; wk++ {
			wg.Add(1)
			go func() {
				defer wg.Done()
				var buf []byte
				for {
					fi := atomic.AddInt64(&next, 1)
					if int(fi) >= len(frontier) {
						return
					}
					if fi%64 == 0 && (deadlineHit() || atomic.LoadInt32(&memHit) != 0) {
						atomic.StoreInt32(&aborted, 1)
					}
					if atomic.LoadInt32(&aborted) != 0 {
						return
					}
					func() {
						defer func() {
							if x := recover(); x != nil {
								o := &out[fi]
								o.rs = nil
								o.stateErr = &Failure{Sig: "checker-panic", Msg: fmt.Sprintf("exploring this history panicked outside the guarded calls (corrupted world?): %v", x)}
								o.done = true
							}
						}()
						si := frontier[fi]
						p := e.path(si)
						o := &out[fi]
						cur, f, _ := Replay(sc, p, false)
						if f != nil {
							o.stateErr = &Failure{Prop: "C13", Sig: "NONDET:replay-failure:" + f.Sig, Msg: "replaying a stored history produced a failure that the first execution did not: " + f.Msg}
							o.done = true
							return
						}
						buf = cur.Key(buf[:0])
						ck := hashKey(buf)
						if ck != e.keys[si] {
							o.stateErr = &Failure{Prop: "C13", Sig: "NONDET:replay-key", Msg: "replaying the same history on a fresh world produced a different state"}
							o.done = true
							return
						}
						if histOf(cur) != e.hists[si] {
							o.stateErr = &Failure{Prop: "C13", Sig: "NONDET:replay-transcript", Msg: "replaying the same history on a fresh world produced different observations (handles, iteration order, events or return values)"}
							o.done = true
							return
						}
						if f := cur.Check(); f != nil {
							last := ""
							if len(p) > 0 {
								last = sc.OpKind(p[len(p)-1])
							}
							if cfg.Accept == nil || cfg.Accept(f, last) {
								o.stateErr = f
								o.done = true
								return
							}
							o.foreign = f
						}
						ops := cur.Enabled()
						o.rs = make([]res, 0, len(ops))
						fresh := true
						for _, op := range ops {
							if !fresh {
								cur, _, _ = Replay(sc, p, false)
								if cfg.CheckEveryReplay {
									buf = cur.Key(buf[:0])
									if hashKey(buf) != ck || histOf(cur) != e.hists[si] {
										o.stateErr = &Failure{Prop: "C13", Sig: "NONDET:replay-key", Msg: "replaying the same history on a fresh world produced a different state or different observations"}
										break
									}
								}
							}
							if fz, ok := cur.(Finalizer); ok {
								fz.BeginFinal()
							}
							x := cur.Apply(op)
							r := res{op: op, fail: x.Fail, prune: x.Prune, outcome: cur.Outcome()}
							if x.Fail == nil {
								buf = cur.Key(buf[:0])
								r.key = hashKey(buf)
								r.hist = histOf(cur)
								if r.key == ck {
									r.self = true
								} else {
									fresh = false
								}
								if r.hist != e.hists[si] {
									// the run's observation history moved on: it is no longer a faithful replay of the parent
									fresh = false
								}
							} else {
								fresh = false
							}
							if r.self && r.hist == e.hists[si] && !x.Prune {
								// the run is still a faithful replay of the parent state; a pruned run (poisoned by a failed batch
								// call, dead after a violation) is never used again
								fresh = true
							}
							o.rs = append(o.rs, r)
						}
						o.done = true
					}()
				}
			}()
		}
		wg.Wait()

		complete := atomic.LoadInt32(&aborted) == 0
		nextFrontier := []int32{}
		var levelKeys []key
		for fi := range out {
			o := &out[fi]
			if !o.done {
				continue
			}
			si := frontier[fi]
			if o.stateErr != nil {
				addFound(o.stateErr, e.path(si))
				continue
			}
			if o.foreign != nil {
				addFound(o.foreign, e.path(si))
			}
			for _, r := range o.rs {
				st.Transitions++
				st.PerKind[sc.OpKind(r.op)]++
				st.Outcomes[r.outcome]++
				if r.fail != nil {
					addFound(r.fail, append(e.path(si), r.op))
					continue
				}
				if r.self {
					st.SelfLoops++
					continue
				}
				if r.prune {
					st.Pruned++
					continue
				}
				if !seen.add(r.key) {
					continue
				}
				e.nodes = append(e.nodes, node{si, r.op})
				e.keys = append(e.keys, r.key)
				e.hists = append(e.hists, r.hist)
				if cfg.Dump != nil && cfg.DumpLevel == depth+1 {
					cfg.Dump(append(e.path(si), r.op), r.key, r.hist)
				}
				nextFrontier = append(nextFrontier, int32(len(e.nodes)-1))
				st.States++
				if cfg.KeepKeys {
					levelKeys = append(levelKeys, r.key)
				}
			}
		}
		if !complete {
			st.CapHit = "time budget"
			if atomic.LoadInt32(&memHit) != 0 {
				st.CapHit = "memory budget"
			}
			frontier = nextFrontier
			break
		}
		depth++
		st.CompletedDepth = depth
		if cfg.KeepKeys {
			h := sha256.New()
			for _, k := range levelKeys {
				h.Write(k[:])
			}
			for _, ni := range nextFrontier {
				var hb [8]byte
				for b := 0; b < 8; b++ {
					hb[b] = byte(e.hists[ni] >> (8 * b))
				}
				h.Write(hb[:])
			}
			st.LevelDigests = append(st.LevelDigests, fmt.Sprintf("%x", h.Sum(nil)[:12]))
			st.LevelTrans = append(st.LevelTrans, st.Transitions)
		}
		frontier = nextFrontier
		if cfg.OnLevel != nil {
			st.Wall = time.Since(start)
			cfg.OnLevel(depth, st)
		}
		if cfg.StopOnViolation && unknown() {
			st.CapHit = "stopped after first violation"
			break
		}
	}
	if len(frontier) == 0 && st.CapHit == "" {
		st.Fixpoint = true
	}
	// state oracles on the states of the last (unexpanded) frontier
	if len(frontier) > 0 && !(cfg.StopOnViolation && unknown()) {
		var next int64 = -1
		var mu sync.Mutex
		var wg sync.WaitGroup
		for wk := 0; wk < cfg.Workers; wk++ {
			wg.Add(1)
			go func() {
				defer wg.Done()
				for {
					fi := atomic.AddInt64(&next, 1)
					if int(fi) >= len(frontier) {
						return
					}
					if fi%64 == 0 && deadlineHit() && !cfg.Deadline.IsZero() && time.Now().After(cfg.Deadline.Add(30*time.Second)) {
						return
					}
					si := frontier[fi]
					p := e.path(si)
					cur, f, _ := Replay(sc, p, false)
					if f == nil {
						f = cur.Check()
					}
					if f != nil {
						mu.Lock()
						addFound(f, p)
						mu.Unlock()
					}
				}
			}()
		}
		wg.Wait()
	}
	st.MaxDepth = depth
	if len(frontier) > 0 {
		st.MaxDepth = depth + 0
	}
	// samples: shortest, mid, deepest
	n := int32(len(e.nodes))
	idxs := []int32{}
	for _, i := range []int32{1, n / 4, n / 2, 3 * n / 4, n - 1} {
		if i > 0 && i < n {
			idxs = append(idxs, i)
		}
	}
	sort.Slice(idxs, func(a, b int) bool { return idxs[a] < idxs[b] })
	var last int32 = -1
	for _, i := range idxs {
		if i == last {
			continue
		}
		last = i
		st.Samples = append(st.Samples, PathStrings(sc, e.path(i)))
	}
	sort.SliceStable(st.Found, func(a, b int) bool { return len(st.Found[a].Path) < len(st.Found[b].Path) })
	st.Wall = time.Since(start)
	return st
}
