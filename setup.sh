#!/bin/bash
# Builds the checker once so that the Go build cache is warm (offline; files on disk only).
set -u
HERE="$(cd "$(dirname "$0")" && pwd)"
export GOFLAGS=-mod=mod GOPROXY=off GOSUMDB=off GOTOOLCHAIN=local GOWORK=off
mkdir -p "$HERE/bin" "$HERE/evidence" "$HERE/replays"
cd "$HERE/harness" || exit 1
go build -tags verif -o "$HERE/bin/check" ./cmd/check || exit 1
go build -tags verif,tiny -o "$HERE/bin/check_tiny" ./cmd/check || exit 1
go build -o "$HERE/bin/c14cases" ./cmd/c14cases || exit 1
go build -race -tags verif -o "$HERE/bin/check_race" ./cmd/check || exit 1
echo "setup ok"
