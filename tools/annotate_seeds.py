#!/usr/bin/env python3
"""Adds a 'verification' entry to every seeded/<id>/meta.json from seeded/RESULTS.tsv (last row per seed/check wins)."""
import csv, json, glob, os
res = {}
with open('/verif/seeded/RESULTS.tsv') as f:
    for row in csv.DictReader(f, delimiter='\t'):
        res.setdefault(row['seed'], {})[row['check']] = row
for d in sorted(glob.glob('/verif/seeded/C*-*')):
    seed = os.path.basename(d)
    mp = os.path.join(d, 'meta.json')
    meta = json.load(open(mp))
    r = res.get(seed, {})
    meta['verification'] = {
        'confirmed_with': 'tools/seed_verify.sh (scratch worktree of /repo HEAD: patch applies, go build ok, unedited suite passes with the patch, demo fails with the patch and passes without)',
        'checks_run': 'tools/seed_run.sh <patch> quick <checks> (scratch worktree + scratch copy of the harness)',
        'detected_by': sorted(c for c, x in r.items() if x['exit'] == '1'),
        'not_detected_by': sorted(c for c, x in r.items() if x['exit'] != '1'),
        'first_violation': {c: x['first_violation'] for c, x in r.items() if x['exit'] == '1'},
    }
    json.dump(meta, open(mp, 'w'), indent=1)
print('annotated', len(res))
