#!/bin/bash
# Runs the checks named in benign/plan.txt against each behaviour-preserving refactoring (benign/<id>/patch.diff) in a
# scratch worktree; every line must say exit=0.
cd /verif
while read b checks; do echo "## $b"; HARNESS_SRC=${HARNESS_SRC:-/verif/harness} tools/seed_run.sh benign/$b/patch.diff quick $checks; done < benign/plan.txt
