#!/bin/bash
# Usage: tools/run_all.sh <quick|thorough> [ids...]; runs the checks one after the other and prints a summary line each.
cd "$(dirname "$0")/.."
tier="${1:-quick}"; shift
ids="${*:-C01 C02 C03 C04 C05 C06 C07 C08 C09 C10 C11 C12 C13 C14 C15 C16 C17 C18 C19 C20}"
mkdir -p logs
for p in $ids; do
  s=$(date +%s); ./check.sh $p $tier > logs/${tier}_$p.log 2>&1; rc=$?; e=$(date +%s)
  echo "$p exit=$rc $((e-s))s $(tail -1 logs/${tier}_$p.log | cut -c1-140)"
  grep -A8 "^VIOLATION" logs/${tier}_$p.log | head -30
done
