#!/bin/bash
# Runs every seeded defect (seeded/<Cxx-n>/patch.diff) against the quick check of its own property and writes seeded/RESULTS.tsv.
# Usage: tools/seed_matrix.sh [extra "<seed> <check>" pairs file]
cd /verif
out=seeded/RESULTS.tsv
pat="${1:-C*-*}"
if [ "$pat" = "C*-*" ]; then echo -e "seed\tcheck\texit\tviolations\tseconds\tfirst_violation" > $out; fi
for d in seeded/$pat/; do
  s=$(basename $d); p=${s%-*}
  checks="$p"
  case $s in
    C02-1) checks="C02 C17";; C03-1|C06-1|C07-1) checks="$p C07";; C10-2) checks="C10 C09 C16";; C01-1|C15-1) checks="$p C01";;
    C08-2|C03-2) checks="$p C03 C08";; C05-2) checks="C05 C08";; C19-1) checks="C19 C17";; C02-2) checks="C02 C15";;
    C15-3) checks="C15 C09";; C13-4) checks="C13 C19 C11";; C10-4|C08-4) checks="$p C03";; C03-4|C02-4|C05-3) checks="$p C01";;
  esac
  checks=$(echo $checks | tr ' ' '\n' | sort -u | tr '\n' ' ')
  tools/seed_run.sh $d/patch.diff quick $checks | while read line; do
    case "$line" in BUILD-FAILURE*|"patch does not apply"*) echo -e "$s\t-\t2\t0\t0\t$line" >> $out; continue;; esac
    c=$(echo "$line" | sed -n 's/^check=\([^ ]*\) .*/\1/p'); [ -z "$c" ] && continue
    e=$(echo "$line" | sed -n 's/.*exit=\([0-9]*\).*/\1/p'); v=$(echo "$line" | sed -n 's/.*violations=\([0-9]*\).*/\1/p'); t=$(echo "$line" | sed -n 's/.*time=\([0-9]*\)s.*/\1/p')
    w=$(echo "$line" | sed -n 's/.*what: \(.*\)/\1/p' | cut -c1-160)
    echo -e "$s\t$c\t$e\t$v\t$t\t$w" >> $out
  done
done
echo done
