#!/bin/bash
# Usage: seed_run.sh <patch.diff> <tier> <check ids...>
# Runs the given checks against a scratch worktree of /repo (HEAD) with the patch applied, using a scratch copy of the
# harness that points at that worktree. /repo and /verif are not touched. Prints one line per check.
set -u
P="$(readlink -f "$1")"; TIER="$2"; shift 2
export GOFLAGS=-mod=mod GOPROXY=off GOSUMDB=off GOTOOLCHAIN=local GOWORK=off
S=/tmp/sr_$$
git -C /repo worktree add -q --detach "$S.repo" HEAD || exit 2
cleanup() { git -C /repo worktree remove --force "$S.repo" >/dev/null 2>&1; rm -rf "$S.repo" "$S.verif"; }
trap cleanup EXIT
git -C "$S.repo" apply "$P" || { echo "patch does not apply"; exit 2; }
mkdir -p "$S.verif"
cp -r "${HARNESS_SRC:-/verif/harness}" "$S.verif/harness"
cp /verif/KNOWN_FINDINGS.txt "$S.verif/" 2>/dev/null
sed -i "s#=> /repo#=> $S.repo#" "$S.verif/harness/go.mod"
mkdir -p "$S.verif/bin"
( cd "$S.verif/harness" && go build -tags verif -o "$S.verif/bin/check" ./cmd/check ) > "$S.verif/build.log" 2>&1 || { echo "BUILD-FAILURE"; head "$S.verif/build.log"; exit 2; }
( cd "$S.verif/harness" && go build -tags verif,tiny -o "$S.verif/bin/check_tiny" ./cmd/check ) >> "$S.verif/build.log" 2>&1 || { echo "BUILD-FAILURE (tiny)"; head "$S.verif/build.log"; exit 2; }
case " $* ${SEED_CMD:-} " in *C14*) ( cd "$S.verif/harness" && go build -o "$S.verif/bin/c14cases" ./cmd/c14cases ) >> "$S.verif/build.log" 2>&1 || { echo "BUILD-FAILURE (c14cases)"; head "$S.verif/build.log"; exit 2; };; esac
case " $* ${SEED_CMD:-} " in *C19*) ( cd "$S.verif/harness" && go build -race -tags verif -o "$S.verif/bin/check_race" ./cmd/check ) >> "$S.verif/build.log" 2>&1 || { echo "BUILD-FAILURE (race)"; head "$S.verif/build.log"; exit 2; };; esac
export VERIF_ROOT="$S.verif" VERIF_REPO="$S.repo"
if [ -n "${SEED_CMD:-}" ]; then ( cd "$S.verif" && "$S.verif/bin/check" $SEED_CMD ); exit $?; fi
for c in "$@"; do
  s=$(date +%s)
  if [ -x /verif/tools/check_extra.sh ]; then :; fi
  ( cd "$S.verif" && "$S.verif/bin/check" $c $TIER ) > /tmp/seedrun_$$_$c.log 2>&1; rc=$?
  e=$(date +%s)
  v=$(grep -c '^VIOLATION' /tmp/seedrun_$$_$c.log)
  echo "check=$c exit=$rc violations=$v time=$((e-s))s $(grep -m1 -A1 '^VIOLATION' /tmp/seedrun_$$_$c.log | tail -1 | cut -c1-220)"
  rm -f /tmp/seedrun_$$_$c.log
done
