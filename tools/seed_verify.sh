#!/bin/bash
# Usage: seed_verify.sh <dir with patch.diff, demo_test.go, meta.json>
# Confirms in a scratch worktree of /repo (HEAD): patch applies, builds, the unedited suite passes, the demo fails with it and passes without it.
set -u
D="$(cd "$1" && pwd)"
export GOPROXY=off GOSUMDB=off GOTOOLCHAIN=local
WT=/tmp/sv_$$
git -C /repo worktree add -q --detach "$WT" HEAD || exit 2
cleanup() { git -C /repo worktree remove --force "$WT" >/dev/null 2>&1; rm -rf "$WT"; }
trap cleanup EXIT
demo_dir=$(python3 -c "import json,sys; print(json.load(open('$D/meta.json')).get('demo_dir','ecs').strip('/'))")
RACE=""
if python3 -c "import json,sys; sys.exit(0 if '-race' in json.load(open('$D/meta.json')).get('demo_run','') else 1)"; then RACE="-race"; echo "(demo is run with -race)"; fi
cd "$WT"
cp "$D/demo_test.go" "$WT/$demo_dir/zz_seed_demo_test.go"
tests=$(grep -o 'func Test[A-Za-z0-9_]*' "$D/demo_test.go" | sed 's/func //' | paste -sd'|')
echo "== demo on unchanged tree (must pass): $tests"
if ! go test $RACE -vet=off -count=1 -run "^($tests)\$" ./$demo_dir/ > /tmp/sv_out_$$ 2>&1; then echo "RESULT: BAD demo fails on unchanged tree"; tail -20 /tmp/sv_out_$$; exit 1; fi
if ! git apply --check "$D/patch.diff" 2>/dev/null; then echo "RESULT: BAD patch does not apply"; exit 1; fi
git apply "$D/patch.diff"
echo "== build + suite with patch (must pass)"
rm "$WT/$demo_dir/zz_seed_demo_test.go"
if ! go build ./... > /tmp/sv_out_$$ 2>&1; then echo "RESULT: BAD does not build"; cat /tmp/sv_out_$$; exit 1; fi
if ! go build -tags verif ./... > /tmp/sv_out_$$ 2>&1; then echo "NOTE: does not build with -tags verif"; head /tmp/sv_out_$$; fi
if ! go test -vet=off -count=1 ./... > /tmp/sv_out_$$ 2>&1; then echo "RESULT: BAD suite fails with patch"; grep -v "^ok" /tmp/sv_out_$$ | head -20; exit 1; fi
cp "$D/demo_test.go" "$WT/$demo_dir/zz_seed_demo_test.go"
echo "== demo with patch (must fail)"
if go test $RACE -vet=off -count=1 -run "^($tests)\$" ./$demo_dir/ > /tmp/sv_out_$$ 2>&1; then echo "RESULT: BAD demo passes with patch"; exit 1; fi
grep -m3 -E "^\s+.*_test.go|panic|--- FAIL" /tmp/sv_out_$$
echo "RESULT: OK"
rm -f /tmp/sv_out_$$
